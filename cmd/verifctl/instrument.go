package main

// Yield points inserted by program. instrumentRepo copies the library's package
// from src to dst and puts a call
//
//	verifYieldAt("@<file>:<func>:<n>", <*Conn receiver or nil>, <*Server receiver or nil>)
//
// in front of every statement of server.go and conn.go at which no mutex of the
// library can be held. The copy is what the "instr" tier of a check is built
// against; /repo itself is never touched. A generated file (build tag verif)
// defines the hook the calls go to, the list of the sites, and a probe for the
// two mutexes.
//
// The body of a range over a map counts as a region with a mutex held (the order of the
// iteration is the runtime's; a park inside would make a run's timing depend on it).
//
// "No mutex can be held" is decided conservatively, by two rules:
//   - lexically: from a statement x.Lock() to the matching x.Unlock() of the same
//     statement list (for ever after a deferred Unlock); a nested list that
//     unlocks and leaves does not unlock the enclosing one; function literals
//     inherit the state at the place they are written (go statements start
//     unlocked, deferred ones count as locked in any function that locks at all);
//   - across calls: every function or method of the package that is called from
//     such a region, directly or through other functions of the package, is left
//     entirely without yield points (callees are resolved with go/types; a call
//     that does not resolve to a function of the package is a call out of it).
// The harness adds a third, dynamic guard: it probes both mutexes before it parks.

import (
	"bytes"
	"fmt"
	"go/ast"
	gobuild "go/build"
	"go/format"
	"go/parser"
	"go/token"
	"go/types"
	"os"
	"path/filepath"
	"sort"
	"strconv"
	"strings"
)

var instrFiles = map[string]bool{"server.go": true, "conn.go": true}

type fakeImporter struct{ pkgs map[string]*types.Package }

func (f *fakeImporter) Import(path string) (*types.Package, error) {
	if p, ok := f.pkgs[path]; ok {
		return p, nil
	}
	name := path[strings.LastIndex(path, "/")+1:]
	if name == "go-sasl" {
		name = "sasl"
	}
	p := types.NewPackage(path, name)
	p.MarkComplete()
	f.pkgs[path] = p
	return p, nil
}

type lockWalker struct {
	info *types.Info
	// onStmt is called for every statement of a statement list with the lock state in front of it;
	// it returns statements to put in front (instrumentation pass) or nil
	onStmt func(s ast.Stmt, held bool) ast.Stmt
	// onCall is called for every call expression with the lock state around it
	onCall    func(c *ast.CallExpr, held bool)
	everLocks bool
}

func isLockCall(s ast.Stmt, names ...string) bool {
	es, ok := s.(*ast.ExprStmt)
	if !ok {
		return false
	}
	return isLockExpr(es.X, names...)
}

func isLockExpr(e ast.Expr, names ...string) bool {
	c, ok := e.(*ast.CallExpr)
	if !ok {
		return false
	}
	sel, ok := c.Fun.(*ast.SelectorExpr)
	if !ok {
		return false
	}
	for _, n := range names {
		if sel.Sel.Name == n {
			return true
		}
	}
	return false
}

func containsLock(n ast.Node) bool {
	found := false
	ast.Inspect(n, func(x ast.Node) bool {
		if e, ok := x.(ast.Expr); ok && isLockExpr(e, "Lock", "RLock", "TryLock", "TryRLock") {
			found = true
		}
		return !found
	})
	return found
}

// exprs visits the calls and function literals of an expression (not descending into nested literals twice).
func (w *lockWalker) exprs(n ast.Node, held bool) {
	if n == nil {
		return
	}
	ast.Inspect(n, func(x ast.Node) bool {
		switch v := x.(type) {
		case *ast.FuncLit:
			w.block(v.Body, held)
			return false
		case *ast.CallExpr:
			if w.onCall != nil {
				w.onCall(v, held)
			}
		}
		return true
	})
}

// block walks a statement list and returns the lock state at its end.
func (w *lockWalker) block(b *ast.BlockStmt, held bool) bool {
	if b == nil {
		return held
	}
	b.List, held = w.stmts(b.List, held)
	return held
}

func (w *lockWalker) stmts(list []ast.Stmt, held bool) ([]ast.Stmt, bool) {
	var out []ast.Stmt
	for _, s := range list {
		if w.onStmt != nil {
			if pre := w.onStmt(s, held); pre != nil {
				out = append(out, pre)
			}
		}
		out = append(out, s)
		held = w.stmt(s, held)
	}
	return out, held
}

func (w *lockWalker) stmt(s ast.Stmt, held bool) bool {
	switch v := s.(type) {
	case *ast.ExprStmt:
		if isLockCall(v, "Lock", "RLock") {
			return true
		}
		if isLockCall(v, "Unlock", "RUnlock") {
			return false
		}
		w.exprs(v.X, held)
	case *ast.DeferStmt:
		if isLockExpr(v.Call, "Unlock", "RUnlock") {
			return held // stays locked to the end of the function
		}
		// a deferred call runs at the end of the function, where a mutex locked further down
		// (with a deferred Unlock registered later) is still held
		h := held || w.everLocks
		if fl, ok := v.Call.Fun.(*ast.FuncLit); ok {
			w.block(fl.Body, h)
			for _, a := range v.Call.Args {
				w.exprs(a, held)
			}
		} else {
			if w.onCall != nil {
				w.onCall(v.Call, h)
			}
			for _, a := range v.Call.Args {
				w.exprs(a, held)
			}
		}
	case *ast.GoStmt:
		if fl, ok := v.Call.Fun.(*ast.FuncLit); ok {
			w.block(fl.Body, false)
		} else if w.onCall != nil {
			w.onCall(v.Call, false)
		}
		for _, a := range v.Call.Args {
			w.exprs(a, held)
		}
	case *ast.BlockStmt:
		return w.block(v, held) || held
	case *ast.IfStmt:
		if v.Init != nil {
			held = w.stmt(v.Init, held)
		}
		w.exprs(v.Cond, held)
		h := w.block(v.Body, held)
		if v.Else != nil {
			h = w.stmt(v.Else, held) || h
		}
		return held || h
	case *ast.ForStmt:
		if v.Init != nil {
			held = w.stmt(v.Init, held)
		}
		w.exprs(v.Cond, held)
		if v.Post != nil {
			w.stmt(v.Post, held)
		}
		return w.block(v.Body, held) || held
	case *ast.RangeStmt:
		w.exprs(v.X, held)
		if t := w.info.TypeOf(v.X); t != nil {
			if _, ok := t.Underlying().(*types.Map); ok {
				// the order of a range over a map is the runtime's: a park inside it (or inside
				// what it calls) would make the timing of a run depend on that order
				w.block(v.Body, true)
				return held
			}
		}
		return w.block(v.Body, held) || held
	case *ast.SwitchStmt:
		if v.Init != nil {
			held = w.stmt(v.Init, held)
		}
		w.exprs(v.Tag, held)
		return w.clauses(v.Body, held)
	case *ast.TypeSwitchStmt:
		if v.Init != nil {
			held = w.stmt(v.Init, held)
		}
		w.stmt(v.Assign, held)
		return w.clauses(v.Body, held)
	case *ast.SelectStmt:
		return w.clauses(v.Body, held)
	case *ast.LabeledStmt:
		return w.stmt(v.Stmt, held)
	case *ast.AssignStmt:
		for _, e := range v.Rhs {
			w.exprs(e, held)
		}
		for _, e := range v.Lhs {
			w.exprs(e, held)
		}
	case *ast.ReturnStmt:
		for _, e := range v.Results {
			w.exprs(e, held)
		}
	case *ast.SendStmt:
		w.exprs(v.Chan, held)
		w.exprs(v.Value, held)
	case *ast.IncDecStmt:
		w.exprs(v.X, held)
	case *ast.DeclStmt:
		w.exprs(v.Decl, held)
	}
	return held
}

func (w *lockWalker) clauses(b *ast.BlockStmt, held bool) bool {
	out := held
	for _, c := range b.List {
		switch cc := c.(type) {
		case *ast.CaseClause:
			for _, e := range cc.List {
				w.exprs(e, held)
			}
			var h bool
			cc.Body, h = w.stmts(cc.Body, held)
			out = out || h
		case *ast.CommClause:
			if cc.Comm != nil {
				w.stmt(cc.Comm, held)
			}
			var h bool
			cc.Body, h = w.stmts(cc.Body, held)
			out = out || h
		}
	}
	return out
}

// calleeOf resolves a call to a function or method declared in the package (nil otherwise).
func calleeOf(info *types.Info, pkg *types.Package, c *ast.CallExpr) *types.Func {
	var id *ast.Ident
	switch f := c.Fun.(type) {
	case *ast.Ident:
		id = f
	case *ast.SelectorExpr:
		id = f.Sel
	case *ast.ParenExpr:
		if s, ok := f.X.(*ast.SelectorExpr); ok {
			id = s.Sel
		}
	}
	if id == nil {
		return nil
	}
	if fn, ok := info.Uses[id].(*types.Func); ok && fn.Pkg() == pkg {
		return fn
	}
	return nil
}

func copyFile(src, dst string) error {
	b, err := os.ReadFile(src)
	if err != nil {
		return err
	}
	return os.WriteFile(dst, b, 0o644)
}

// instrumentRepo writes the instrumented copy and returns the names of the yield sites.
func instrumentRepo(src, dst string) ([]string, error) {
	if err := os.MkdirAll(dst, 0o755); err != nil {
		return nil, err
	}
	ents, err := os.ReadDir(src)
	if err != nil {
		return nil, err
	}
	ctx := gobuild.Default
	ctx.BuildTags = []string{"verif"}
	fset := token.NewFileSet()
	var files []*ast.File
	var names []string
	for _, e := range ents {
		n := e.Name()
		if e.IsDir() {
			continue
		}
		if n == "go.mod" || n == "go.sum" {
			if err := copyFile(filepath.Join(src, n), filepath.Join(dst, n)); err != nil {
				return nil, err
			}
			continue
		}
		if !strings.HasSuffix(n, ".go") || strings.HasSuffix(n, "_test.go") {
			continue
		}
		if err := copyFile(filepath.Join(src, n), filepath.Join(dst, n)); err != nil {
			return nil, err
		}
		if ok, _ := ctx.MatchFile(src, n); !ok {
			continue
		}
		mode := parser.ParseComments
		if instrFiles[n] {
			mode = 0 // inserted statements have no position; comments would end up inside them
		}
		f, err := parser.ParseFile(fset, filepath.Join(src, n), nil, mode)
		if err != nil {
			return nil, err
		}
		files = append(files, f)
		names = append(names, n)
	}
	info := &types.Info{Types: map[ast.Expr]types.TypeAndValue{}, Uses: map[*ast.Ident]types.Object{}, Defs: map[*ast.Ident]types.Object{}, Selections: map[*ast.SelectorExpr]*types.Selection{}}
	conf := types.Config{Importer: &fakeImporter{pkgs: map[string]*types.Package{}}, Error: func(error) {}}
	pkg, _ := conf.Check("github.com/emersion/go-smtp", fset, files, info)
	if pkg == nil {
		return nil, fmt.Errorf("instrument: the package could not be analysed")
	}

	// pass 1: which functions of the package can run with a mutex held
	type fdecl struct {
		d    *ast.FuncDecl
		file string
		obj  *types.Func
	}
	var decls []fdecl
	for i, f := range files {
		for _, d := range f.Decls {
			if fd, ok := d.(*ast.FuncDecl); ok && fd.Body != nil {
				obj, _ := info.Defs[fd.Name].(*types.Func)
				decls = append(decls, fdecl{fd, names[i], obj})
			}
		}
	}
	tainted := map[*types.Func]bool{}
	callsIn := map[*types.Func][]*types.Func{} // all calls of a function, wherever they stand
	for _, fd := range decls {
		w := &lockWalker{info: info, everLocks: containsLock(fd.d.Body)}
		w.onCall = func(c *ast.CallExpr, held bool) {
			fn := calleeOf(info, pkg, c)
			if fn == nil {
				return
			}
			if held {
				tainted[fn] = true
			}
			if fd.obj != nil {
				callsIn[fd.obj] = append(callsIn[fd.obj], fn)
			}
		}
		w.block(fd.d.Body, false)
	}
	for changed := true; changed; {
		changed = false
		for fn := range tainted {
			for _, callee := range callsIn[fn] {
				if !tainted[callee] {
					tainted[callee] = true
					changed = true
				}
			}
		}
	}

	if os.Getenv("VERIF_INSTR_DEBUG") != "" {
		var tn []string
		for fn := range tainted {
			tn = append(tn, fn.FullName())
		}
		sort.Strings(tn)
		fmt.Fprintln(os.Stderr, "functions that may run with a mutex held (no yield points):", strings.Join(tn, ", "))
	}
	// pass 2: insert the calls
	var sites []string
	for _, fd := range decls {
		if !instrFiles[fd.file] || (fd.obj != nil && tainted[fd.obj]) {
			continue
		}
		if strings.HasPrefix(fd.d.Name.Name, "verif") || strings.HasPrefix(fd.d.Name.Name, "Verif") {
			continue
		}
		if fd.d.Recv != nil && ast.IsExported(fd.d.Name.Name) && recvTypeName(fd.d) == "Conn" {
			// the API a backend uses from inside its callbacks (Hostname, Conn, Session, ...)
			continue
		}
		connRecv, srvRecv := "nil", "nil"
		if fd.d.Recv != nil && len(fd.d.Recv.List) == 1 && len(fd.d.Recv.List[0].Names) == 1 {
			if st, ok := fd.d.Recv.List[0].Type.(*ast.StarExpr); ok {
				if id, ok := st.X.(*ast.Ident); ok {
					rn := fd.d.Recv.List[0].Names[0].Name
					if rn != "_" {
						switch id.Name {
						case "Conn":
							connRecv = rn
						case "Server":
							srvRecv = rn
						}
					}
				}
			}
		}
		fname := fd.d.Name.Name
		if fd.d.Recv != nil {
			if st, ok := fd.d.Recv.List[0].Type.(*ast.StarExpr); ok {
				if id, ok := st.X.(*ast.Ident); ok {
					fname = id.Name + "." + fname
				}
			} else if id, ok := fd.d.Recv.List[0].Type.(*ast.Ident); ok {
				fname = id.Name + "." + fname
			}
		}
		n := 0
		w := &lockWalker{info: info, everLocks: containsLock(fd.d.Body)}
		w.onStmt = func(s ast.Stmt, held bool) ast.Stmt {
			if held {
				return nil
			}
			if isLockCall(s, "Unlock", "RUnlock") {
				return nil
			}
			if es, ok := s.(*ast.ExprStmt); ok {
				if c, ok := es.X.(*ast.CallExpr); ok {
					if id, ok := c.Fun.(*ast.Ident); ok && strings.HasPrefix(id.Name, "verif") {
						return nil
					}
				}
			}
			n++
			site := fmt.Sprintf("@%s:%s:%d", fd.file, fname, n)
			sites = append(sites, site)
			return &ast.ExprStmt{X: &ast.CallExpr{
				Fun:  ast.NewIdent("verifYieldAt"),
				Args: []ast.Expr{&ast.BasicLit{Kind: token.STRING, Value: strconv.Quote(site)}, ast.NewIdent(connRecv), ast.NewIdent(srvRecv)},
			}}
		}
		w.block(fd.d.Body, false)
	}
	for i, f := range files {
		if !instrFiles[names[i]] {
			continue
		}
		var buf bytes.Buffer
		if err := format.Node(&buf, fset, f); err != nil {
			return nil, err
		}
		if err := os.WriteFile(filepath.Join(dst, names[i]), buf.Bytes(), 0o644); err != nil {
			return nil, err
		}
	}
	sort.Strings(sites)
	var g bytes.Buffer
	g.WriteString("//go:build verif\n\npackage smtp\n\n// Generated by verifctl (instrument.go) into a scratch copy of the package; never part of /repo.\n\n")
	g.WriteString("// VerifAutoYield, when set, is called at every inserted yield point with the Conn or Server\n// the surrounding method belongs to (nil otherwise).\n")
	g.WriteString("var VerifAutoYield func(point string, c *Conn, s *Server)\n\n")
	g.WriteString("func verifYieldAt(point string, c *Conn, s *Server) {\n\tif VerifAutoYield != nil {\n\t\tVerifAutoYield(point, c, s)\n\t}\n}\n\n")
	g.WriteString("// VerifLocksHeld reports whether the mutex of c, of its server, or of s is held at this moment by anybody.\n")
	g.WriteString("func VerifLocksHeld(c *Conn, s *Server) bool {\n\tif c != nil {\n\t\tif !c.locker.TryLock() {\n\t\t\treturn true\n\t\t}\n\t\tc.locker.Unlock()\n\t\tif s == nil {\n\t\t\ts = c.server\n\t\t}\n\t}\n\tif s != nil {\n\t\tif !s.locker.TryLock() {\n\t\t\treturn true\n\t\t}\n\t\ts.locker.Unlock()\n\t}\n\treturn false\n}\n\n")
	g.WriteString("// VerifAutoSites lists the inserted yield points.\nvar VerifAutoSites = []string{\n")
	for _, s := range sites {
		fmt.Fprintf(&g, "\t%q,\n", s)
	}
	g.WriteString("}\n")
	if err := os.WriteFile(filepath.Join(dst, "hooks_verif_auto.go"), g.Bytes(), 0o644); err != nil {
		return nil, err
	}
	return sites, nil
}

func recvTypeName(d *ast.FuncDecl) string {
	if d.Recv == nil || len(d.Recv.List) != 1 {
		return ""
	}
	t := d.Recv.List[0].Type
	if st, ok := t.(*ast.StarExpr); ok {
		t = st.X
	}
	if id, ok := t.(*ast.Ident); ok {
		return id.Name
	}
	return ""
}
