package main

import (
	"fmt"
	"os"
)

// `verifctl instrument <src> <dst>`: writes the instrumented copy of the package (debugging aid).
func instrumentCmd(args []string) int {
	if len(args) < 2 {
		die(2, "usage: verifctl instrument <src> <dst>")
	}
	sites, err := instrumentRepo(args[0], args[1])
	if err != nil {
		fmt.Fprintln(os.Stderr, err)
		return 2
	}
	fmt.Printf("%d yield points inserted\n", len(sites))
	return 0
}
