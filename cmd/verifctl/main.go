// verifctl builds the simulation test binary from /repo's current working
// tree, fans a property's runs out over worker processes, aggregates their
// results into /verif/evidence/<id>.json and prints the verdict lines.
//
// Exit codes: 0 property held on everything explored (known findings are
// printed as KNOWN-FINDING lines); 1 a violation not listed in
// known_findings.json (VIOLATION property=<id> replay=<path>); 2 build
// failure, harness fault or watchdog - never a violation.
package main

import (
	"bytes"
	"encoding/json"
	"flag"
	"fmt"
	"os"
	"os/exec"
	"path/filepath"
	"runtime"
	"sort"
	"strconv"
	"strings"
	"sync"
	"time"
)

const goTool = "go1.26.8"

var root = "/verif"

type failure struct {
	Property string         `json:"property"`
	Rule     string         `json:"rule"`
	Detail   string         `json:"detail"`
	Witness  string         `json:"witness"`
	Known    string         `json:"known,omitempty"`
	Seed     uint64         `json:"seed"`
	Run      uint64         `json:"run"`
	Tape     []uint64       `json:"tape"`
	Over     map[string]int `json:"over,omitempty"`
	Tier     string         `json:"tier"`
	Scenario []string       `json:"scenario"`
	History  []string       `json:"history"`
	Digest   string         `json:"digest"`
	Shrunk   int            `json:"shrink_executions"`
	File     string         `json:"file,omitempty"`
	Regen    bool           `json:"regen,omitempty"`
	Instr    bool           `json:"instr,omitempty"`
}

type workerResult struct {
	Property   string         `json:"property"`
	Worker     int            `json:"worker"`
	Evals      int            `json:"evals"`
	Nontrivial []uint64       `json:"nontrivial"`
	Shapes     []uint64       `json:"shapes"`
	Faults     map[string]int `json:"faults"`
	Probes     map[string]int `json:"probes"`
	Strata     map[string]int `json:"strata"`
	SimNanos   int64          `json:"sim_nanos"`
	Samples    []string       `json:"samples"`
	Failures   []failure      `json:"failures"`
	KnownHits  map[string]int `json:"known_hits"`
	ViolCount  int            `json:"viol_count"`
	WallS      float64        `json:"wall_s"`
	Completed  bool           `json:"completed"`
	SweepDone  bool           `json:"sweep_done"`
	SweepSize  int            `json:"sweep_size"`
	HarnessErr string         `json:"harness_err,omitempty"`
	Digests    []string       `json:"digests,omitempty"`
	Meta       *propMeta      `json:"meta,omitempty"`
	Races      []raceReport   `json:"races,omitempty"`
	ResumeAt   int            `json:"resume_at,omitempty"`
}

type raceReport struct {
	Key  string `json:"key"`
	Text string `json:"text"`
}

type propMeta struct {
	Level       string   `json:"level"`
	Rule        string   `json:"rule"`
	Real        []string `json:"real"`
	Stub        []string `json:"stub"`
	Assumptions []string `json:"assumptions"`
	Race        bool     `json:"race"`
	Instr       bool     `json:"instr"`
	Exhaustive  bool     `json:"exhaustive"`
	Required    []string `json:"required"`
}

type knownFinding struct {
	ID       string `json:"id"`
	Property string `json:"property"`
	Rule     string `json:"rule"`
	Trigger  string `json:"trigger"`
	What     string `json:"what"`
	Fixed    string `json:"fixed,omitempty"`
}

func goEnv() []string {
	env := os.Environ()
	env = append(env, "GOFLAGS=-mod=mod", "GOPROXY=off", "GOSUMDB=off", "GOTOOLCHAIN=local", "CGO_ENABLED=1")
	return env
}

func die(code int, format string, a ...interface{}) {
	fmt.Fprintf(os.Stderr, format+"\n", a...)
	os.Exit(code)
}

// build compiles the simulation test binary from /repo's current tree.
func build(race bool, out string) error {
	return buildFrom(race, out, "", "verif")
}

// buildInstr compiles the simulation against a copy of the library into which yield
// points have been inserted by program (instrument.go); the copy is made from the
// current working tree of /repo and lives next to the binary.
func buildInstr(out string) ([]string, error) {
	src := "/repo"
	if r := os.Getenv("VERIF_REPO"); r != "" {
		src = r
	}
	dst := out + ".repo"
	os.RemoveAll(dst)
	sites, err := instrumentRepo(src, dst)
	if err != nil {
		return nil, err
	}
	return sites, buildFrom(false, out, dst, "verif,verifinstr")
}

func buildFrom(race bool, out, repo, tags string) error {
	args := []string{"test", "-c", "-tags", tags, "-o", out}
	if race {
		args = append(args, "-race")
	}
	if repo == "" {
		repo = os.Getenv("VERIF_REPO")
	}
	if r := repo; r != "" && r != "/repo" {
		// background sweeps against a snapshot of /repo (vp run --with-repo), so that
		// scratch edits of /repo do not leak into them; the registered commands never set this
		mod, err := os.ReadFile(filepath.Join(root, "go.mod"))
		if err != nil {
			return err
		}
		sum, _ := os.ReadFile(filepath.Join(root, "go.sum"))
		mod = bytes.ReplaceAll(mod, []byte("=> /repo"), []byte("=> "+r))
		os.WriteFile(out+".mod", mod, 0o644)
		os.WriteFile(out+".sum", sum, 0o644)
		args = append(args, "-modfile="+out+".mod")
	}
	args = append(args, "./sim/")
	cmd := exec.Command(goTool, args...)
	cmd.Dir = root
	cmd.Env = goEnv()
	var buf bytes.Buffer
	cmd.Stdout, cmd.Stderr = &buf, &buf
	if err := cmd.Run(); err != nil {
		return fmt.Errorf("build failed: %v\n%s", err, buf.String())
	}
	return nil
}

func main() {
	if r := os.Getenv("VERIF_ROOT"); r != "" {
		root = r
	}
	if len(os.Args) < 2 {
		die(2, "usage: verifctl setup | check <ID> [--tier quick|thorough] | replay <file> | selftest [ids]")
	}
	switch os.Args[1] {
	case "setup":
		os.MkdirAll(filepath.Join(root, ".build"), 0o755)
		if err := build(false, filepath.Join(root, ".build", "setup.test")); err != nil {
			die(2, "%v", err)
		}
		if err := build(true, filepath.Join(root, ".build", "setup.race.test")); err != nil {
			die(2, "%v", err)
		}
		os.Remove(filepath.Join(root, ".build", "setup.test"))
		os.Remove(filepath.Join(root, ".build", "setup.race.test"))
		fmt.Println("setup ok")
	case "check":
		os.Exit(check(os.Args[2:]))
	case "replay":
		os.Exit(replay(os.Args[2:]))
	case "selftest":
		os.Exit(selftest(os.Args[2:]))
	case "instrument":
		os.Exit(instrumentCmd(os.Args[2:]))
	default:
		die(2, "unknown subcommand %s", os.Args[1])
	}
}

func check(args []string) int {
	fs := flag.NewFlagSet("check", flag.ExitOnError)
	tier := fs.String("tier", "", "quick or thorough")
	seedF := fs.String("seed", "", "seed (default $VERIF_SEED or 1)")
	runs := fs.Int("runs", 0, "override the seeded-run budget")
	wall := fs.Int("wall", 0, "override the wall-clock budget in seconds")
	workers := fs.Int("workers", 0, "worker processes (default: number of CPUs, max 16)")
	if len(args) < 1 {
		die(2, "usage: verifctl check <ID> [flags]")
	}
	id := args[0]
	fs.Parse(args[1:])
	if *tier == "" {
		*tier = os.Getenv("VERIF_TIER")
	}
	if *tier == "" {
		*tier = "quick"
	}
	if *tier != "quick" && *tier != "thorough" {
		die(2, "bad tier %q", *tier)
	}
	seedStr := *seedF
	if seedStr == "" {
		seedStr = os.Getenv("VERIF_SEED")
	}
	if seedStr == "" {
		seedStr = "1"
	}
	seed, err := strconv.ParseInt(seedStr, 10, 64)
	if err != nil {
		die(2, "bad seed %q", seedStr)
	}
	nw := *workers
	if nw == 0 {
		nw = runtime.NumCPU()
		if nw > 16 {
			nw = 16
		}
	}
	if *wall == 0 {
		if *tier == "quick" {
			*wall = 150
		} else {
			*wall = 1200
			if s := os.Getenv("VERIF_THOROUGH_WALL"); s != "" {
				if v, err := strconv.Atoi(s); err == nil {
					*wall = v
				}
			}
		}
	}
	start := time.Now()
	work := filepath.Join(root, ".build", fmt.Sprintf("%s-%d", id, os.Getpid()))
	os.MkdirAll(work, 0o755)
	defer os.RemoveAll(work)
	replayDir := filepath.Join(root, "replays")
	os.MkdirAll(replayDir, 0o755)
	if old, _ := filepath.Glob(filepath.Join(replayDir, id+"-*.json")); old != nil {
		for _, f := range old {
			os.Remove(f)
		}
	}

	bin := filepath.Join(work, "sim.test")
	if err := build(false, bin); err != nil {
		die(2, "%v", err)
	}
	// ask the binary for the property's metadata
	meta, err := queryMeta(bin, id)
	if err != nil {
		die(2, "%v", err)
	}
	evidencePath := filepath.Join(root, "evidence", id+".json")
	os.MkdirAll(filepath.Dir(evidencePath), 0o755)
	if r := os.Getenv("VERIF_REPO"); r != "" && r != "/repo" {
		// a run against a scratch copy of the repository is no evidence about /repo
		evidencePath = filepath.Join(work, "evidence.json")
	}

	results, crashes, code := runWorkers(bin, id, *tier, seed, *runs, *wall, nw, work, replayDir, "")
	if code == 2 {
		return 2
	}
	var raceResults []workerResult
	if meta.Race {
		rbin := filepath.Join(work, "sim.race.test")
		if err := build(true, rbin); err != nil {
			die(2, "%v", err)
		}
		var rc []failure
		var rcode int
		raceResults, rc, rcode = runWorkers(rbin, id, *tier, seed, *runs, *wall, nw, work, replayDir, "race")
		if rcode == 2 {
			nv := len(crashes)
			for _, r := range results {
				nv += r.ViolCount
			}
			if nv == 0 {
				return 2
			}
			// violations found without the race detector stand whatever happened to the second build
			fmt.Fprintln(os.Stderr, "the race-detector tier was aborted (harness trouble, see above); reporting what the plain tier found")
			raceResults = nil
		}
		crashes = append(crashes, rc...)
	}
	var instrResults []workerResult
	if meta.Instr && os.Getenv("VERIF_NO_INSTR") == "" {
		// third build: against a scratch copy of the library with yield points inserted by
		// program in front of every statement at which no mutex can be held
		ibin := filepath.Join(work, "sim.instr.test")
		sites, err := buildInstr(ibin)
		if err != nil {
			die(2, "instrumented build: %v", err)
		}
		instrSites = len(sites)
		var ic []failure
		var icode int
		instrResults, ic, icode = runWorkers(ibin, id, *tier, seed, *runs, *wall, nw, work, replayDir, "instr")
		if icode == 2 {
			return 2
		}
		for i := range ic {
			ic[i].Instr = true
			if ic[i].File != "" {
				if b, err := json.MarshalIndent(ic[i], "", " "); err == nil {
					os.WriteFile(ic[i].File, b, 0o644)
				}
			}
		}
		crashes = append(crashes, ic...)
		raceResults = append(raceResults, instrResults...)
		for _, r := range instrResults {
			instrEvals += r.Evals
		}
	}

	known := loadKnown()
	return report(id, *tier, seed, meta, results, raceResults, crashes, known, evidencePath, time.Since(start))
}

func queryMeta(bin, id string) (*propMeta, error) {
	cmd := exec.Command(bin, "-test.run", "^TestWorker$", "-test.timeout", "0")
	cmd.Env = append(os.Environ(), "VERIF_PROP="+id, "VERIF_META=1")
	out, err := cmd.Output()
	if err != nil {
		return nil, fmt.Errorf("metadata query failed: %v", err)
	}
	i := bytes.Index(out, []byte("META:"))
	if i < 0 {
		return nil, fmt.Errorf("no metadata in worker output: %s", out)
	}
	line := out[i+5:]
	if j := bytes.IndexByte(line, '\n'); j >= 0 {
		line = line[:j]
	}
	var m propMeta
	if err := json.Unmarshal(line, &m); err != nil {
		return nil, err
	}
	return &m, nil
}

func loadKnown() []knownFinding {
	b, err := os.ReadFile(filepath.Join(root, "known_findings.json"))
	if err != nil {
		return nil
	}
	var kf struct {
		Findings []knownFinding `json:"findings"`
	}
	if err := json.Unmarshal(b, &kf); err != nil {
		die(2, "bad known_findings.json: %v", err)
	}
	return kf.Findings
}

// runWorkers fans the runs out. It returns the workers' results, failures
// synthesised from crashed workers, and 2 on harness trouble.
func runWorkers(bin, id, tier string, seed int64, runs, wall, nw int, work, replayDir string, mode string) ([]workerResult, []failure, int) {
	race := mode == "race"
	var wg sync.WaitGroup
	results := make([]workerResult, nw)
	type wstat struct {
		err    error
		stderr string
		ok     bool
	}
	stats := make([]wstat, nw)
	suffix := ""
	if mode != "" {
		suffix = "." + mode
	}
	for i := 0; i < nw; i++ {
		wg.Add(1)
		go func(i int) {
			defer wg.Done()
			out := filepath.Join(work, fmt.Sprintf("w%d%s.json", i, suffix))
			env := append(os.Environ(),
				"VERIF_PROP="+id, "VERIF_TIER="+tier, fmt.Sprintf("VERIF_SEED=%d", seed),
				fmt.Sprintf("VERIF_WORKER=%d", i), fmt.Sprintf("VERIF_NWORKERS=%d", nw),
				fmt.Sprintf("VERIF_WALL=%d", wall), "VERIF_OUT="+out, "VERIF_REPLAYDIR="+replayDir,
				"VERIF_KNOWN="+filepath.Join(root, "known_findings.json"),
				"GOMAXPROCS=1",
			)
			if runs > 0 {
				env = append(env, fmt.Sprintf("VERIF_RUNS=%d", runs))
			}
			if race {
				rl := filepath.Join(work, fmt.Sprintf("race%d", i))
				env = append(env, "VERIF_RACE=1", "GORACE=halt_on_error=0 log_path="+rl, "VERIF_RACELOG="+rl)
			}
			if mode == "instr" {
				env = append(env, "VERIF_INSTR=1")
			}
			// A run whose fake clock never advances is ended by the worker's real-time
			// watchdog. If the dump shows no goroutine waiting for a mutex, the stall is
			// not a deadlock of the code under test (observed once in ~10^6 runs: a
			// goroutine readied by a bubble timer stays "runnable" for ever under
			// GOMAXPROCS=1): the run is abandoned, recorded, and the worker resumes
			// behind it. A mutex wait in the dump is left to a human (exit 2).
			start := 0
			until := time.Now().Add(time.Duration(wall) * time.Second)
			for attempt := 0; attempt < 12; {
				left := int(time.Until(until).Seconds())
				if left < 1 {
					left = 1
				}
				cmd := exec.Command(bin, "-test.run", "^TestWorker$", "-test.timeout", "0", "-test.cpu", "1")
				cmd.Env = append(append([]string{}, env...), fmt.Sprintf("VERIF_START=%d", start), fmt.Sprintf("VERIF_WALL=%d", left))
				var eb bytes.Buffer
				cmd.Stderr = &eb
				cmd.Stdout = &eb
				err := cmd.Run()
				stats[i].err = err
				stats[i].stderr = eb.String()
				b, rerr := os.ReadFile(out)
				var wr workerResult
				if rerr == nil && json.Unmarshal(b, &wr) == nil {
					mergeWorker(&results[i], &wr)
					stats[i].ok = true
					if wr.ResumeAt > 0 && time.Now().Before(until) {
						// the process ended itself to give its memory back: go on in a fresh one
						start = wr.ResumeAt
						os.Remove(out)
						stats[i].ok = false
						continue
					}
					break
				}
				attempt++
				se := eb.String()
				if !strings.Contains(se, "WATCHDOG:") {
					break
				}
				// A goroutine waiting for a mutex in the dump: somebody sleeps on the fake clock
				// with that mutex held (the code under test holding a lock across I/O or a
				// callback, or two of its goroutines reading one TLS connection). The run is
				// abandoned like the others so that the rest of the budget is still used, but it
				// is counted: a check that found no violation does not pass with such runs (exit 2).
				mutexWait := strings.Contains(se, "[sync.Mutex.Lock") || strings.Contains(se, "[sync.RWMutex")
				if pb, perr := os.ReadFile(out + ".partial"); perr == nil {
					var pr workerResult
					if json.Unmarshal(pb, &pr) == nil {
						mergeWorker(&results[i], &pr)
					}
					os.Remove(out + ".partial")
				}
				j, _ := os.ReadFile(out + ".journal")
				f := strings.Fields(string(j))
				if len(f) < 2 {
					break
				}
				run, _ := strconv.Atoi(f[1])
				abandonedMu.Lock()
				note := ""
				if mutexWait {
					note = " (a goroutine was waiting for a mutex)"
					if frames := libraryMutexWaiter(se); frames != "" && deadlockProps[id] {
						// The waiter stands in go-smtp code in front of one of go-smtp's own
						// mutexes (Server.locker, Conn.locker) and the clock cannot move: the
						// mutex was left locked, or is held across something that blocks. For a
						// property with a no-deadlock clause that is a violation of it.
						note = " (a goroutine waits for a mutex of the library: reported as a deadlock)"
						if freezeFailures < 3 {
							ff := failure{Property: id, Rule: id + ".deadlock", Tier: tier, Regen: true, Digest: "freeze",
								Detail:  "the simulated clock stopped because a goroutine waits for a mutex of the library that is never released (left locked, or held across a blocking operation):\n" + frames,
								History: strings.Split(tail(se, 6000), "\n")}
							ff.Seed, _ = strconv.ParseUint(f[0], 10, 64)
							ff.Run, _ = strconv.ParseUint(f[1], 10, 64)
							if len(f) >= 3 && f[2] != "-" {
								ff.Over = map[string]int{}
								for _, kv := range strings.Split(f[2], ",") {
									p := strings.SplitN(kv, "=", 2)
									if len(p) == 2 {
										v, _ := strconv.Atoi(p[1])
										ff.Over[p[0]] = v
									}
								}
							}
							ff.File = filepath.Join(replayDir, fmt.Sprintf("%s-%s_deadlock-freeze-s%d-r%d.json", id, id, ff.Seed, ff.Run))
							fb, _ := json.MarshalIndent(ff, "", " ")
							os.WriteFile(ff.File, fb, 0o644)
							freezeCrashes = append(freezeCrashes, ff)
						}
						freezeFailures++
					} else {
						abandonedMutex++
						if abandonedMutexDump == "" {
							abandonedMutexDump = se
						}
					}
				}
				abandoned = append(abandoned, fmt.Sprintf("seed=%s run=%s over=%s%s", f[0], f[1], strings.Join(f[2:], ""), note))
				abandonedMu.Unlock()
				start = run + 1
			}
		}(i)
	}
	wg.Wait()
	var crashes []failure
	for i := range stats {
		if stats[i].ok {
			if results[i].HarnessErr != "" {
				fmt.Fprintf(os.Stderr, "HARNESS FAULT in worker %d: %s\n", i, results[i].HarnessErr)
				return nil, nil, 2
			}
			continue
		}
		// the worker died: watchdog / harness problem (exit 2) or a crash of the process
		se := stats[i].stderr
		if strings.Contains(se, "WATCHDOG:") && (results[i].Property != "" || freezeFailures > 0) {
			// it lost run after run to the watchdog until its attempts were used up: what it
			// had counted before is kept, the abandoned runs are on record
			continue
		}
		if strings.Contains(se, "WATCHDOG:") || !(strings.Contains(se, "panic:") || strings.Contains(se, "fatal error:")) {
			fmt.Fprintf(os.Stderr, "worker %d failed without a result (%v):\n%s\n", i, stats[i].err, tail(se, 4000))
			return nil, nil, 2
		}
		if !strings.Contains(se, "go-smtp") || panicInHarness(se) {
			fmt.Fprintf(os.Stderr, "worker %d crashed in harness code (%v):\n%s\n", i, stats[i].err, tail(se, 6000))
			return nil, nil, 2
		}
		// An unrecovered panic in library code killed the process: that is a violation
		// (C19/C20: the server must not crash). Build a replay file from the journal.
		f := failure{Property: id, Rule: "process-crash", Detail: "unrecovered panic killed the process: " + firstPanicLine(se), Tier: tier, Regen: true, History: strings.Split(tail(se, 6000), "\n")}
		j, _ := os.ReadFile(filepath.Join(work, fmt.Sprintf("w%d%s.json.journal", i, suffix)))
		fields := strings.Fields(string(j))
		if len(fields) >= 2 {
			f.Seed, _ = strconv.ParseUint(fields[0], 10, 64)
			f.Run, _ = strconv.ParseUint(fields[1], 10, 64)
			if len(fields) >= 3 && fields[2] != "-" {
				f.Over = map[string]int{}
				for _, kv := range strings.Split(fields[2], ",") {
					p := strings.SplitN(kv, "=", 2)
					if len(p) == 2 {
						v, _ := strconv.Atoi(p[1])
						f.Over[p[0]] = v
					}
				}
			}
		}
		f.File = filepath.Join(replayDir, fmt.Sprintf("%s-process-crash-s%d-r%d.json", id, f.Seed, f.Run))
		b, _ := json.MarshalIndent(f, "", " ")
		os.WriteFile(f.File, b, 0o644)
		crashes = append(crashes, f)
	}
	abandonedMu.Lock()
	crashes = append(crashes, freezeCrashes...)
	freezeCrashes = nil
	abandonedMu.Unlock()
	return results, crashes, 0
}

var (
	instrSites, instrEvals int
	abandonedMu            sync.Mutex
	abandoned              []string
	abandonedMutex         int
	abandonedMutexDump     string
	freezeFailures         int
	freezeCrashes          []failure
)

// properties with a "no deadlock" clause of their own
var deadlockProps = map[string]bool{"C20": true, "C08": true, "C13": true, "C19": true}

// libraryMutexWaiter returns the first frames of a goroutine of the dump that is
// blocked in sync.Mutex.Lock called directly from go-smtp code ("" if none).
func libraryMutexWaiter(dump string) string {
	// A goroutine asleep on the fake clock below library frames is a callback or a transport
	// call that the harness has parked: it may be the holder, and it would let go if the clock
	// could move - a delay, not a deadlock. Only a dump without one is judged.
	for _, g := range strings.Split(dump, "\n\n") {
		if strings.Contains(g, "[sleep") && strings.Contains(g, "emersion/go-smtp.") {
			return ""
		}
	}
	for _, g := range strings.Split(dump, "\n\n") {
		if !strings.Contains(g, "[sync.Mutex.Lock") && !strings.Contains(g, "[sync.RWMutex") {
			continue
		}
		var fns []string
		for _, l := range strings.Split(g, "\n") {
			if strings.HasPrefix(l, "\t") || strings.HasPrefix(l, "goroutine ") || l == "" {
				continue
			}
			fns = append(fns, l)
		}
		for i, fn := range fns {
			if strings.HasPrefix(fn, "sync.") || strings.HasPrefix(fn, "internal/sync.") || strings.HasPrefix(fn, "runtime.") || strings.HasPrefix(fn, "internal/") {
				continue
			}
			if strings.Contains(fn, "emersion/go-smtp.") {
				end := i + 4
				if end > len(fns) {
					end = len(fns)
				}
				return "  " + strings.Join(fns[i:end], "\n  ")
			}
			break
		}
	}
	return ""
}

// mergeWorker adds the result of a resumed worker process to what its
// predecessors reported.
func mergeWorker(dst, src *workerResult) {
	if dst.Property == "" {
		*dst = *src
		return
	}
	dst.Evals += src.Evals
	dst.Nontrivial = append(dst.Nontrivial, src.Nontrivial...)
	dst.Shapes = append(dst.Shapes, src.Shapes...)
	for k, v := range src.Faults {
		dst.Faults[k] += v
	}
	for k, v := range src.Probes {
		dst.Probes[k] += v
	}
	for k, v := range src.Strata {
		dst.Strata[k] += v
	}
	for k, v := range src.KnownHits {
		dst.KnownHits[k] += v
	}
	dst.SimNanos += src.SimNanos
	dst.Failures = append(dst.Failures, src.Failures...)
	dst.ViolCount += src.ViolCount
	dst.Completed = src.Completed
	dst.SweepDone = src.SweepDone
	if src.WallS > dst.WallS {
		dst.WallS = src.WallS
	}
}

func panicInHarness(se string) bool {
	// A panic the simulated backend raised on purpose inside a callback and that went through
	// library frames all the way up: the library did not contain a backend panic - its crash,
	// not the harness's.
	if strings.Contains(firstPanicLine(se), "simulated backend panic") && strings.Contains(se, "emersion/go-smtp.(*") {
		return false
	}
	// the first frame after the panic header tells who panicked
	i := strings.Index(se, "goroutine ")
	if i < 0 {
		return false
	}
	rest := se[i:]
	lines := strings.Split(rest, "\n")
	for _, l := range lines[1:] {
		if strings.HasPrefix(l, "panic(") || strings.HasPrefix(l, "runtime.") || strings.HasPrefix(l, "\t") || l == "" {
			continue
		}
		return strings.HasPrefix(l, "verif/sim.")
	}
	return false
}

func firstPanicLine(se string) string {
	for _, l := range strings.Split(se, "\n") {
		if strings.HasPrefix(l, "panic:") || strings.HasPrefix(l, "fatal error:") {
			return l
		}
	}
	return "?"
}

func tail(s string, n int) string {
	if len(s) > n {
		return s[len(s)-n:]
	}
	return s
}

func report(id, tier string, seed int64, meta *propMeta, results, raceResults []workerResult, crashes []failure, known []knownFinding, evidencePath string, wall time.Duration) int {
	nontrivial := map[uint64]struct{}{}
	shapes := map[uint64]struct{}{}
	faults := map[string]int{}
	probes := map[string]int{}
	strata := map[string]int{}
	knownHits := map[string]int{}
	var samples []interface{}
	var failures []failure
	evals, simNanos, violCount := 0, int64(0), 0
	completed, sweepDone := true, true
	sweepSize := 0
	var workerWall float64
	add := func(rs []workerResult) {
		for _, r := range rs {
			evals += r.Evals
			simNanos += r.SimNanos
			violCount += r.ViolCount
			for _, h := range r.Nontrivial {
				nontrivial[h] = struct{}{}
			}
			for _, h := range r.Shapes {
				shapes[h] = struct{}{}
			}
			for k, v := range r.Faults {
				faults[k] += v
			}
			for k, v := range r.Probes {
				probes[k] += v
			}
			for k, v := range r.Strata {
				strata[k] += v
			}
			for k, v := range r.KnownHits {
				knownHits[k] += v
			}
			if len(samples) < 3 {
				for _, s := range r.Samples {
					if len(samples) < 3 {
						samples = append(samples, strings.Split(s, "\n"))
					}
				}
			}
			failures = append(failures, r.Failures...)
			if !r.Completed {
				completed = false
			}
			if !r.SweepDone {
				sweepDone = false
			}
			if r.SweepSize > sweepSize {
				sweepSize = r.SweepSize
			}
			if r.WallS > workerWall {
				workerWall = r.WallS
			}
		}
	}
	add(results)
	raceEvals := -instrEvals
	for _, r := range raceResults {
		raceEvals += r.Evals
	}
	add(raceResults)
	failures = append(failures, crashes...)

	// verdict lines
	exit := 0
	unknown := 0
	printedKnown := map[string]bool{}
	seenRule := map[string]bool{}
	sort.SliceStable(failures, func(i, j int) bool { return len(failures[i].Tape) < len(failures[j].Tape) })
	for _, f := range failures {
		if f.Known != "" {
			continue
		}
		unknown++
		if seenRule[f.Rule] {
			continue
		}
		seenRule[f.Rule] = true
		fmt.Printf("VIOLATION property=%s replay=%s\n", id, f.File)
		fmt.Printf("  rule=%s\n  %s\n", f.Rule, f.Detail)
		exit = 1
	}
	for _, k := range known {
		if k.Property != id || k.Fixed != "" {
			continue
		}
		if knownHits[k.ID] > 0 && !printedKnown[k.ID] {
			printedKnown[k.ID] = true
			fmt.Printf("KNOWN-FINDING: property=%s %s (seen in %d runs)\n", id, k.What, knownHits[k.ID])
		}
	}

	// evidence
	if len(samples) == 0 {
		samples = append(samples, "no non-trivial sample recorded")
	}
	rph := 0.0
	if wall.Seconds() > 0 {
		rph = float64(evals) / wall.Seconds() * 3600
	}
	var zero []string
	for k, v := range probes {
		if v == 0 {
			zero = append(zero, k)
		}
	}
	cov := map[string]interface{}{
		"evaluations":                            evals,
		"distinct_nontrivial":                    len(nontrivial),
		"rule":                                   meta.Rule,
		"samples":                                samples,
		"runs_per_hour":                          int64(rph),
		"seeds":                                  []int64{seed},
		"simulated_time_s":                       float64(simNanos) / 1e9,
		"faults_fired":                           faults,
		"probes_hit":                             probes,
		"probes_zero":                            zero,
		"distinct_interleavings":                 len(shapes),
		"interleaving_measure":                   "distinct hashes of the per-run sequence of (actor, event kind) in fake-time order",
		"components_real":                        meta.Real,
		"components_stub":                        meta.Stub,
		"strata":                                 strata,
		"systematic_sweep_size":                  sweepSize,
		"systematic_sweep_done":                  sweepDone,
		"seeded_budget_done":                     completed,
		"race_build_evaluations":                 raceEvals,
		"inserted_yield_point_build_evaluations": instrEvals,
		"inserted_yield_points":                  instrSites,
		"known_finding_hits":                     knownHits,
		"required_strata":                        meta.Required,
		"runs_abandoned_to_the_watchdog":         abandoned,
		"workers":                                len(results),
	}
	if meta.Exhaustive && sweepDone {
		cov["exhaustive"] = false // exhaustive over the generated corpus only, not over all inputs
	}
	ev := map[string]interface{}{
		"property_id": id,
		"tier":        tier,
		"seed":        seed,
		"level":       meta.Level,
		"coverage":    cov,
		"assumptions": meta.Assumptions,
		"wall_s":      wall.Seconds(),
		"violations":  unknown,
	}
	b, _ := json.MarshalIndent(ev, "", " ")
	if err := os.WriteFile(evidencePath, b, 0o644); err != nil {
		die(2, "cannot write evidence: %v", err)
	}
	fmt.Printf("%s tier=%s seed=%d evaluations=%d distinct_nontrivial=%d interleavings=%d reported_violations=%d violating_runs=%d wall=%.1fs\n",
		id, tier, seed, evals, len(nontrivial), len(shapes), unknown, violCount, wall.Seconds())
	if evals == 0 {
		fmt.Fprintln(os.Stderr, "no evaluations were run")
		return 2
	}
	if exit == 0 && abandonedMutex > 0 {
		fmt.Fprintf(os.Stderr, "%d runs froze the fake clock with a goroutine waiting for a mutex and were abandoned; no violation was found elsewhere, so this is harness trouble (exit 2). First dump:\n%s\n", abandonedMutex, clipStr(abandonedMutexDump, 6000))
		return 2
	}
	// coverage self-check: every stratum the check is built around was reached
	if exit == 0 && evals >= 5000 {
		var missing []string
		for _, name := range meta.Required {
			if probes[name] == 0 && faults[name] == 0 {
				missing = append(missing, name)
			}
		}
		if instrEvals >= 1000 && faults["park_at_inserted_yield_point"] == 0 {
			// the build with inserted yield points ran but never parked at one: it explored
			// nothing the plain build does not
			missing = append(missing, "park_at_inserted_yield_point")
		}
		if len(missing) > 0 {
			fmt.Fprintf(os.Stderr, "COVERAGE SELF-CHECK FAILED for %s: never reached %v - the generator no longer produces what the check is built around\n", id, missing)
			return 2
		}
	}
	return exit
}

func replay(args []string) int {
	if len(args) < 1 {
		die(2, "usage: verifctl replay <file>")
	}
	path := args[0]
	b, err := os.ReadFile(path)
	if err != nil {
		die(2, "%v", err)
	}
	var f failure
	if err := json.Unmarshal(b, &f); err != nil {
		die(2, "%v", err)
	}
	work := filepath.Join(root, ".build", fmt.Sprintf("replay-%d", os.Getpid()))
	os.MkdirAll(work, 0o755)
	defer os.RemoveAll(work)
	bin := filepath.Join(work, "sim.test")
	race := f.Rule == "C20.race"
	if f.Instr {
		if _, err := buildInstr(bin); err != nil {
			die(2, "%v", err)
		}
	} else if err := build(race, bin); err != nil {
		die(2, "%v", err)
	}
	abs, _ := filepath.Abs(path)
	cmd := exec.Command(bin, "-test.run", "^TestWorker$", "-test.timeout", "0", "-test.cpu", "1")
	cmd.Env = append(os.Environ(), "VERIF_PROP="+f.Property, "VERIF_REPLAY="+abs, "GOMAXPROCS=1",
		"VERIF_KNOWN="+filepath.Join(root, "known_findings.json"))
	if race {
		rl := filepath.Join(work, "race")
		cmd.Env = append(cmd.Env, "VERIF_RACE=1", "GORACE=halt_on_error=0 log_path="+rl, "VERIF_RACELOG="+rl)
	}
	if f.Instr {
		cmd.Env = append(cmd.Env, "VERIF_INSTR=1")
	}
	if f.Digest == "freeze" {
		// the recorded run stopped the simulated clock: it reproduces when it does so again,
		// with a goroutine waiting for a mutex of the library
		var eb bytes.Buffer
		cmd.Stdout, cmd.Stderr = &eb, &eb
		cmd.Env = append(cmd.Env, "VERIF_RUN_WALL_LIMIT=15")
		cmd.Run()
		out := eb.String()
		fmt.Println(tail(out, 5000))
		if strings.Contains(out, "WATCHDOG:") && libraryMutexWaiter(out) != "" {
			fmt.Printf("violation rule=%s detail=%s\nREPRODUCED: the simulated clock stops again, a goroutine waits for a mutex of the library\nVIOLATION property=%s replay=%s\n", f.Rule, strings.SplitN(f.Detail, "\n", 2)[0], f.Property, path)
			return 1
		}
		fmt.Println("NOT REPRODUCED: the run did not stop the clock")
		return 0
	}
	cmd.Stdout, cmd.Stderr = os.Stdout, os.Stderr
	if err := cmd.Run(); err != nil {
		if ee, ok := err.(*exec.ExitError); ok {
			return ee.ExitCode()
		}
		return 2
	}
	return 0
}

// selftest proves determinism: every seed's runs are executed in several
// processes at several GOMAXPROCS values and the event-log digests compared.
func selftest(args []string) int {
	ids := args
	if len(ids) == 0 {
		die(2, "usage: verifctl selftest <ID>...")
	}
	work := filepath.Join(root, ".build", fmt.Sprintf("selftest-%d", os.Getpid()))
	os.MkdirAll(work, 0o755)
	defer os.RemoveAll(work)
	bin := filepath.Join(work, "sim.test")
	if err := build(false, bin); err != nil {
		die(2, "%v", err)
	}
	procs := 30
	runs := 64
	if s := os.Getenv("VERIF_SELFTEST_PROCS"); s != "" {
		procs, _ = strconv.Atoi(s)
	}
	if s := os.Getenv("VERIF_SELFTEST_RUNS"); s != "" {
		runs, _ = strconv.Atoi(s)
	}
	summary := map[string]interface{}{}
	bad := 0
	plainBin := bin
	ibin := ""
	for _, key := range ids {
		// "C20+instr": the build with inserted yield points
		id := strings.TrimSuffix(key, "+instr")
		instr := id != key
		bin = plainBin
		if instr {
			if ibin == "" {
				ibin = filepath.Join(work, "sim.instr.test")
				if _, err := buildInstr(ibin); err != nil {
					die(2, "%v", err)
				}
			}
			bin = ibin
		}
		digests := make([][]string, procs)
		var wg sync.WaitGroup
		sem := make(chan struct{}, 16)
		for p := 0; p < procs; p++ {
			wg.Add(1)
			go func(p int) {
				defer wg.Done()
				sem <- struct{}{}
				defer func() { <-sem }()
				gmp := []string{"1", "4", "16"}[p%3]
				out := filepath.Join(work, fmt.Sprintf("%s-p%d.json", id, p))
				cmd := exec.Command(bin, "-test.run", "^TestWorker$", "-test.timeout", "0")
				cmd.Env = append(os.Environ(), "VERIF_PROP="+id, "VERIF_TIER=quick", "VERIF_SEED=7", "VERIF_WORKER=0", "VERIF_NWORKERS=1",
					fmt.Sprintf("VERIF_RUNS=%d", runs), "VERIF_NOSWEEP=1", "VERIF_WALL=600", "VERIF_OUT="+out, "VERIF_SELFTEST=1", "GOMAXPROCS="+gmp,
					"VERIF_KNOWN="+filepath.Join(root, "known_findings.json"), "VERIF_SHRINK_BUDGET=0")
				if instr {
					cmd.Env = append(cmd.Env, "VERIF_INSTR=1")
				}
				cmd.Run()
				b, err := os.ReadFile(out)
				var r workerResult
				if err == nil && json.Unmarshal(b, &r) == nil {
					digests[p] = r.Digests
				}
			}(p)
		}
		wg.Wait()
		diverged := 0
		n := 0
		for p := 0; p < procs; p++ {
			if digests[p] == nil {
				fmt.Printf("selftest %s: process %d produced no result\n", id, p)
				bad++
				continue
			}
			if len(digests[p]) > n {
				n = len(digests[p])
			}
		}
		for i := 0; i < n; i++ {
			ref := ""
			for p := 0; p < procs; p++ {
				if digests[p] == nil || i >= len(digests[p]) {
					continue
				}
				if ref == "" {
					ref = digests[p][i]
				} else if digests[p][i] != ref {
					diverged++
					fmt.Printf("selftest %s: run %d diverges in process %d (GOMAXPROCS=%s)\n", id, i, p, []string{"1", "4", "16"}[p%3])
					break
				}
			}
		}
		id = key
		summary[id] = map[string]interface{}{"executions_per_process": n, "processes": procs, "gomaxprocs": []int{1, 4, 16}, "diverging_runs": diverged}
		fmt.Printf("selftest %s: %d executions x %d processes, %d diverging\n", id, n, procs, diverged)
		bad += diverged
	}
	// merge with what earlier invocations recorded for other properties
	path := filepath.Join(root, "evidence", "_determinism.json")
	if old, err := os.ReadFile(path); err == nil {
		var prev map[string]interface{}
		if json.Unmarshal(old, &prev) == nil {
			for k, v := range prev {
				if _, ok := summary[k]; !ok {
					summary[k] = v
				}
			}
		}
	}
	b, _ := json.MarshalIndent(summary, "", " ")
	os.WriteFile(path, b, 0o644)
	if bad > 0 {
		return 2
	}
	return 0
}

func clipStr(s string, n int) string {
	if len(s) > n {
		return s[:n] + "..."
	}
	return s
}
