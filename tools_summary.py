#!/usr/bin/env python3
"""Print a short summary of the replay files of a property: one entry per (rule, witness)."""
import json, glob, sys
seen = set()
for f in sorted(glob.glob('/verif/replays/%s-*.json' % sys.argv[1])):
    r = json.load(open(f))
    key = (r['rule'], r['witness'] if r['rule'] == 'C20.race' else '')
    if key in seen:
        continue
    seen.add(key)
    print('==', r['rule'], '|', r['witness'][:200])
    if r['rule'] != 'C20.race':
        print('   ', r['detail'][:int(sys.argv[2]) if len(sys.argv) > 2 else 300].replace('\n', '\n    '))
