package sim

import (
	"bufio"
	"crypto/tls"
	"net"
	"strings"
	"time"
)

// Stub behaviours: a scripted, possibly hostile SMTP server for the client
// half of C10.
const (
	stubHonest      = iota
	stubNoStartTLS  // STARTTLS is not advertised
	stub454         // STARTTLS is refused with 454
	stubGarbage     // 220, then octets that are not TLS
	stubCut         // 220, then the connection is closed
	stubInjectSame  // 220 and an injected plaintext reply in the same segment, then an honest handshake
	stubInjectLater // 220, then an injected plaintext reply in a later segment, then the handshake is attempted
)

var stubNames = []string{"honest", "starttls-not-advertised", "454", "220-then-garbage", "220-then-cut", "220+injected-reply-same-segment", "220+injected-reply-later-segment"}

// StubScript configures the stub server.
type StubScript struct {
	Behaviour int
	PlainCaps []string
	TLSCaps   []string
	Gap       Dur
	TLSNoEhlo bool      // inside TLS the server knows HELO only: EHLO is answered 502
	LMTP      []StubTxn // non-nil: a scripted LMTP server, one entry per MAIL it accepts
}

// StubTxn scripts one LMTP transaction of the stub: the reply to each RCPT in
// order, the reply to DATA (354, or a refusal), and after the message one final
// reply per accepted recipient.
type StubTxn struct {
	Rcpt   []int
	Data   int
	Finals []int
	Retry  bool // the refusal of DATA is a passing one: the transaction stays open and the next DATA gets 354
}

// runLMTPStub is a strict little LMTP server: a transaction ends with its final
// replies, with a refused DATA it stays open until RSET or the next MAIL, which
// starts the next scripted transaction with an empty recipient list.
func runLMTPStub(raw *SimConn, s *StubScript, h *StubHistory) {
	rd := bufio.NewReader(raw)
	write := func(x string) { raw.Write([]byte(x)) }
	write("220 stub.example LMTP\r\n")
	ti, ri, accepted, dataTries := -1, 0, 0, 0
	for {
		raw.SetReadDeadline(time.Now().Add(40 * time.Minute))
		l, err := rd.ReadString('\n')
		if err != nil {
			h.Ended = err.Error()
			raw.Close()
			return
		}
		l = strings.TrimRight(l, "\r\n")
		h.PlainLines = append(h.PlainLines, l)
		up := strings.ToUpper(l)
		switch {
		case strings.HasPrefix(up, "LHLO"):
			write("250-stub.example\r\n250-PIPELINING\r\n250 ENHANCEDSTATUSCODES\r\n")
		case strings.HasPrefix(up, "MAIL"):
			ti++
			ri, accepted, dataTries = 0, 0, 0
			if ti >= len(s.LMTP) {
				write("451 4.3.0 the script has no more transactions\r\n")
				continue
			}
			write("250 2.1.0 sender ok\r\n")
		case strings.HasPrefix(up, "RCPT"):
			code := 550
			if ti >= 0 && ti < len(s.LMTP) && ri < len(s.LMTP[ti].Rcpt) {
				code = s.LMTP[ti].Rcpt[ri]
			}
			ri++
			if code == 250 {
				accepted++
				write("250 2.1.5 recipient ok\r\n")
			} else if code == 251 {
				accepted++
				write("251 2.1.5 user not local, will forward\r\n")
			} else if code == 252 {
				accepted++
				write("252 2.1.5 cannot verify the user, will take the message\r\n")
			} else {
				write(itoa(code) + " 5.1.1 no such recipient\r\n")
			}
		case strings.HasPrefix(up, "DATA"):
			if ti < 0 || ti >= len(s.LMTP) || accepted == 0 {
				write("503 5.5.1 no recipients\r\n")
				continue
			}
			if d := s.LMTP[ti].Data; d != 354 && !(s.LMTP[ti].Retry && dataTries > 0) {
				dataTries++
				write(itoa(d) + " 4.3.0 not now\r\n")
				continue
			}
			dataTries = 0
			write("354 go ahead\r\n")
			for {
				dl, err := rd.ReadString('\n')
				if err != nil {
					h.Ended = err.Error()
					raw.Close()
					return
				}
				if dl == ".\r\n" {
					break
				}
				h.PlainData += len(dl)
			}
			for k := 0; k < accepted; k++ {
				code := 250
				if k < len(s.LMTP[ti].Finals) {
					code = s.LMTP[ti].Finals[k]
				}
				switch code {
				case 250:
					write("250 2.0.0 delivered\r\n")
				case 452:
					write("452 4.2.2 over quota\r\n")
				default:
					write(itoa(code) + " 5.2.0 mailbox unavailable\r\n")
				}
			}
			accepted, ri = 0, 0
		case strings.HasPrefix(up, "RSET"):
			accepted, ri = 0, 0
			write("250 2.0.0 reset\r\n")
		case strings.HasPrefix(up, "QUIT"):
			write("221 2.0.0 bye\r\n")
			raw.Close()
			h.Ended = "quit"
			return
		default:
			write("250 2.0.0 ok\r\n")
		}
	}
}

// StubHistory is what the stub saw.
type StubHistory struct {
	PlainLines    []string // command lines received in plaintext
	TLSLines      []string // command lines received inside TLS
	PlainData     int      // message octets received in plaintext
	HandshakeDone bool
	HandshakeErr  string
	Ended         string
}

func runStub(raw *SimConn, s *StubScript, h *StubHistory, tlsCfg *tls.Config, class int) {
	var conn net.Conn = raw
	rd := bufio.NewReader(conn)
	inTLS := false
	write := func(x string) { conn.Write([]byte(x)) }
	write("220 stub.example ESMTP\r\n")
	for {
		conn.SetReadDeadline(time.Now().Add(20 * time.Minute))
		l, err := rd.ReadString('\n')
		if err != nil {
			h.Ended = err.Error()
			raw.Close()
			return
		}
		l = strings.TrimRight(l, "\r\n")
		if inTLS {
			h.TLSLines = append(h.TLSLines, l)
		} else {
			h.PlainLines = append(h.PlainLines, l)
		}
		up := strings.ToUpper(l)
		switch {
		case strings.HasPrefix(up, "EHLO") && inTLS && s.TLSNoEhlo:
			write("502 5.5.1 command not implemented\r\n")
		case strings.HasPrefix(up, "EHLO"), strings.HasPrefix(up, "LHLO"):
			caps := s.PlainCaps
			if inTLS {
				caps = s.TLSCaps
			}
			if !inTLS && s.Behaviour != stubNoStartTLS {
				caps = append(append([]string{}, caps...), "STARTTLS")
			}
			out := "250-stub.example\r\n"
			for i, c := range caps {
				sep := "-"
				if i == len(caps)-1 {
					sep = " "
				}
				out += "250" + sep + c + "\r\n"
			}
			if len(caps) == 0 {
				out = "250 stub.example\r\n"
			}
			write(out)
		case strings.HasPrefix(up, "HELO"):
			write("250 stub.example\r\n")
		case strings.HasPrefix(up, "STARTTLS"):
			if inTLS {
				write("503 5.5.1 already TLS\r\n")
				continue
			}
			switch s.Behaviour {
			case stubNoStartTLS:
				write("502 5.5.1 not supported\r\n")
				continue
			case stub454:
				write("454 4.7.0 TLS not available\r\n")
				continue
			case stubGarbage:
				write("220 2.0.0 go ahead\r\n")
				if s.Gap > 0 {
					sleepClass(class, s.Gap)
				}
				write("this is certainly not a TLS record\r\n250 2.0.0 nor is this\r\n")
				continue
			case stubCut:
				write("220 2.0.0 go ahead\r\n")
				if s.Gap > 0 {
					sleepClass(class, s.Gap)
				}
				raw.Close()
				h.Ended = "stub closed after 220"
				return
			case stubInjectSame:
				write("220 2.0.0 go ahead\r\n250 2.0.0 injected-reply\r\n")
			case stubInjectLater:
				write("220 2.0.0 go ahead\r\n")
				sleepClass(class, s.Gap+time.Millisecond)
				write("250 2.0.0 injected-reply\r\n")
			default:
				write("220 2.0.0 go ahead\r\n")
			}
			tc := tls.Server(raw, tlsCfg)
			raw.SetReadDeadline(time.Now().Add(10 * time.Minute))
			if err := tc.Handshake(); err != nil {
				h.HandshakeErr = err.Error()
				raw.Close()
				h.Ended = "handshake failed"
				return
			}
			h.HandshakeDone = true
			inTLS = true
			conn = tc
			rd = bufio.NewReader(conn)
		case strings.HasPrefix(up, "DATA"):
			write("354 go ahead\r\n")
			for {
				dl, err := rd.ReadString('\n')
				if err != nil {
					h.Ended = err.Error()
					raw.Close()
					return
				}
				if dl == ".\r\n" {
					break
				}
				if !inTLS {
					h.PlainData += len(dl)
				}
			}
			write("250 2.0.0 queued\r\n")
		case strings.HasPrefix(up, "QUIT"):
			write("221 2.0.0 bye\r\n")
			conn.Close()
			h.Ended = "quit"
			return
		case strings.HasPrefix(up, "AUTH"):
			write("235 2.7.0 ok\r\n")
		default:
			write("250 2.0.0 ok\r\n")
		}
	}
}
