package sim

import (
	"fmt"
	"time"
)

// C18 - LMTP client reports each recipient's own status, transaction after
// transaction.

type c18Txn struct {
	Rcpts     []string // RCPT commands of the transaction
	Accepted  []string
	Codes     []int    // expected status per accepted recipient
	Details   []string // expected callback argument per accepted recipient, with enhanced code and message
	UseCb     bool
	DataOp    int
	NoopOp    int
	AllOK     bool
	Slow      bool // a per-recipient status arrives later than CommandTimeout after the previous reply, or the message is produced that slowly
	SlowBody  bool
	MultiLine bool // a per-recipient reply has two lines
}

type c18X struct {
	Stub  []c18StubTxn // non-nil: the peer is a scripted LMTP server (transactions the real server cannot produce: a refused DATA)
	Txns  []c18Txn
	Fault int // 0 none; the conversation is broken off: 1 Server.Close, 2 backend panic in one delivery, 3 failing reply writes, 4 a reply write blocked for ever
}

// c18StubTxn is one transaction against the scripted LMTP server.
type c18StubTxn struct {
	Rcpts    []string
	RcptCode []int
	Data     int   // the stub's reply to DATA
	Finals   []int // per accepted recipient
	UseCb    bool
	DataOp   int
	NoopOp   int
	Reset    bool // the client calls Reset after a refused DATA (otherwise it goes straight to the next Mail)
	Retry    bool // the refusal is a passing one: the client asks again in the same transaction and gets 354
	FirstOp  int  // index of the refused first attempt when Retry
	MailOp   int
}

// genC18Stub: the real LMTP client against a scripted server. What the real
// server never does is refuse DATA after it accepted recipients; a client
// must come out of that with an empty recipient list all the same.
func genC18Stub(t *Tape, sc *Scenario, x *c18X) *Scenario {
	cl := &ClientScript{LMTP: true}
	stub := &StubScript{LMTP: []StubTxn{}}
	ntx := 2 + t.Intn(2)
	for m := 0; m < ntx; m++ {
		tx := c18StubTxn{UseCb: t.Bool(), Data: 354}
		if m < ntx-1 && t.Chance(1, 2) {
			tx.Data = 452
			tx.Reset = t.Bool()
		}
		st := StubTxn{Data: tx.Data}
		tx.MailOp = len(cl.Ops)
		cl.Ops = append(cl.Ops, ClientOp{Kind: opMail, Arg: fmt.Sprintf("ok-s%d@a.example", m)})
		n := 1 + t.Intn(3)
		for i := 0; i < n; i++ {
			r := fmt.Sprintf("ok-t%dr%d@b.example", m, i)
			code := []int{250, 250, 250, 251, 252}[t.Intn(5)] // 251 and 252 accept a recipient as 250 does
			if i > 0 && t.Chance(1, 4) {
				code = 550
			}
			tx.Rcpts = append(tx.Rcpts, r)
			tx.RcptCode = append(tx.RcptCode, code)
			st.Rcpt = append(st.Rcpt, code)
			cl.Ops = append(cl.Ops, ClientOp{Kind: opRcpt, Arg: r})
			if code/100 == 2 {
				f := []int{250, 250, 452, 550, 421, 554}[t.Intn(6)] // 421 for one recipient does not end the response: the others still get their own reply
				tx.Finals = append(tx.Finals, f)
				st.Finals = append(st.Finals, f)
			}
		}
		if tx.Data != 354 && t.Chance(1, 3) {
			// a passing refusal: the same transaction, asked again, goes through
			tx.Retry, tx.Reset = true, false
			st.Retry = true
			tx.FirstOp = len(cl.Ops)
			cl.Ops = append(cl.Ops, ClientOp{Kind: opData, Body: []byte("never sent\r\n"), UseCb: tx.UseCb})
		}
		tx.DataOp = len(cl.Ops)
		cl.Ops = append(cl.Ops, ClientOp{Kind: opData, Body: []byte(fmt.Sprintf("message %d\r\n", m)), UseCb: tx.UseCb})
		if tx.Data != 354 && tx.Reset {
			cl.Ops = append(cl.Ops, ClientOp{Kind: opReset})
		}
		tx.NoopOp = len(cl.Ops)
		cl.Ops = append(cl.Ops, ClientOp{Kind: opNoop})
		stub.LMTP = append(stub.LMTP, st)
		x.Stub = append(x.Stub, tx)
	}
	cl.Ops = append(cl.Ops, ClientOp{Kind: opQuit})
	cs := ConnScript{Lat: drawLat(t), LatBack: drawLat(t), Client: cl, Stub: stub}
	cs.defaults()
	if t.Bool() {
		cs.SrvFaults.WriteSplit = []int{1 + t.Intn(20), 1 + t.Intn(5)}
	}
	sc.Conns = []ConnScript{cs}
	sc.Strata = []string{fmt.Sprintf("stub/txns%d", ntx)}
	return sc
}

func checkC18Stub(sc *Scenario, h *History, x *c18X) []Violation {
	var out []Violation
	ch := h.Conns[0]
	if ch.Client == nil || len(ch.Client.Results) == 0 {
		return []Violation{{Rule: "C18.harness", Detail: "client did not run"}}
	}
	res := ch.Client.Results
	for ti, tx := range x.Stub {
		wit := fmt.Sprintf("scripted server: txn=%d of %d rcpt=%v data=%d finals=%v cb=%v reset=%v", ti, len(x.Stub), tx.RcptCode, tx.Data, tx.Finals, tx.UseCb, tx.Reset)
		v := func(rule, format string, a ...interface{}) {
			if len(out) < 4 {
				out = append(out, Violation{Rule: rule, Detail: fmt.Sprintf(format, a...), Witness: wit})
			}
		}
		d := res[tx.DataOp]
		for i, code := range tx.RcptCode {
			// the Rcpt ops of this transaction directly follow its Mail op
			if ri := tx.MailOp + 1 + i; code/100 == 2 && ri < len(res) && res[ri].Kind == opRcpt && res[ri].Err != "" {
				v("C18.rcpt", "transaction %d: the server accepted recipient %d with %d but Rcpt returned %q", ti, i, code, res[ri].Err)
			}
		}
		if tx.Retry && res[tx.FirstOp].DataErr == "" {
			v("C18.data", "transaction %d: the server refused the first DATA with %d but Data()/LMTPData() returned no error", ti, tx.Data)
		}
		if tx.Data != 354 && !tx.Retry {
			if d.DataErr == "" {
				v("C18.data", "transaction %d: the server refused DATA with %d but Data()/LMTPData() returned no error", ti, tx.Data)
			}
		} else {
			if d.DataErr != "" || d.WriteErr != "" {
				v("C18.data", "transaction %d: DATA failed: %q %q", ti, d.DataErr, d.WriteErr)
				continue
			}
			if d.End-d.Begin > int64(time.Minute) {
				v("C18.close-waits", "transaction %d: Close returned after %v of fake time (err=%q): it waited for replies that never come", ti, time.Duration(d.End-d.Begin), d.Err)
			}
			var want []string
			allOK := true
			k := 0
			for i, r := range tx.Rcpts {
				if tx.RcptCode[i]/100 != 2 {
					continue
				}
				want = append(want, fmt.Sprintf("%s=%d", r, tx.Finals[k]))
				if tx.Finals[k] != 250 {
					allOK = false
				}
				k++
			}
			if tx.UseCb {
				if fmt.Sprint(d.Statuses) != fmt.Sprint(want) {
					v("C18.statuses", "transaction %d: the callback reported %v, the server answered %v", ti, d.Statuses, want)
				}
				if d.Err != "" && d.End-d.Begin <= int64(time.Minute) {
					v("C18.close-error", "transaction %d: Close with a callback returned %q", ti, d.Err)
				}
			} else {
				if allOK && d.Err != "" && d.End-d.Begin <= int64(time.Minute) {
					v("C18.close-error", "transaction %d: every recipient was accepted but Close returned %q", ti, d.Err)
				}
				if !allOK && d.Err == "" {
					v("C18.refusal-lost", "transaction %d: recipients were refused after DATA (%v) but Close without a callback returned nil", ti, tx.Finals)
				}
			}
		}
		if d.StaleSet {
			if d.StaleErr == "" {
				v("C18.close-twice", "transaction %d: closing the previous message's writer again, while this message was being written, returned nil", ti)
			}
			if d.StaleRaw != 0 {
				v("C18.close-twice", "transaction %d: closing the previous message's writer again put %d octets on the wire in the middle of this message", ti, d.StaleRaw)
			}
		}
		if tx.NoopOp < len(res) && res[tx.NoopOp].Err != "" {
			v("C18.desync", "transaction %d: the NOOP after it failed: %s", ti, res[tx.NoopOp].Err)
		}
	}
	return out
}

func genC18(t *Tape, tier string) *Scenario {
	sc := &Scenario{Prop: "C18"}
	sc.Srv = drawCfg(t, cfgOpts{forceLMTP: true})
	sc.Srv.MaxRcpt = 0
	sc.Srv.MaxMsg = 0
	sc.Srv.MaxLine = 2000
	sc.BE.Flavor = beLMTP
	x := &c18X{}
	sc.X = x
	if !t.HasOver("c18ntx") && t.Chance(1, 5) {
		return genC18Stub(t, sc, x)
	}
	cl := &ClientScript{LMTP: true}
	var cp ConnBackendPlan
	ntx := 1 + t.Named("c18ntx", 3)
	cb := t.Named("c18cb", 2) == 1
	for m := 0; m < ntx; m++ {
		tx := c18Txn{UseCb: cb, AllOK: true}
		cl.Ops = append(cl.Ops, ClientOp{Kind: opMail, Arg: fmt.Sprintf("ok-s%d@a.example", m)})
		n := 1 + t.Intn(3)
		dp := DataPlan{ReadSizes: drawReadSizes(t), ParkAfter: t.SmallDur()}
		for i := 0; i < n; i++ {
			if t.Chance(1, 5) {
				r := fmt.Sprintf("r5-t%dr%d@b.example", m, i)
				tx.Rcpts = append(tx.Rcpts, r)
				cl.Ops = append(cl.Ops, ClientOp{Kind: opRcpt, Arg: r})
			}
			r := fmt.Sprintf("ok-t%dr%d@b.example", m, i)
			tx.Rcpts = append(tx.Rcpts, r)
			tx.Accepted = append(tx.Accepted, r)
			cl.Ops = append(cl.Ops, ClientOp{Kind: opRcpt, Arg: r})
			code := 250
			multi := ""
			if t.Chance(1, 4) {
				multi = "\nsecond line of the reply" // the server answers with a multi-line reply
			}
			switch t.Pick(3, 1, 1) {
			case 1:
				code = 550
				dp.Statuses = append(dp.Statuses, StatusCall{Addr: r, V: Verdict{Kind: vSMTP, Code: 550, Enh: [3]int{5, 1, 1}, Msg: "no mailbox " + r + multi}, When: t.Intn(3)})
			case 2:
				code = 452
				dp.Statuses = append(dp.Statuses, StatusCall{Addr: r, V: Verdict{Kind: vSMTP, Code: 452, Enh: [3]int{4, 2, 2}, Msg: "over quota " + r + multi}, When: t.Intn(3)})
			default:
				if t.Bool() {
					dp.Statuses = append(dp.Statuses, StatusCall{Addr: r, V: Verdict{}, When: t.Intn(3)})
				}
			}
			if code != 250 {
				tx.AllOK = false
			}
			tx.Codes = append(tx.Codes, code)
			switch {
			case code != 250 && multi != "":
				tx.Details = append(tx.Details, "") // a multi-line reply: only its code is compared
				tx.MultiLine = true
			case code == 550:
				tx.Details = append(tx.Details, fmt.Sprintf("%s=550 5.1.1 %q", r, "<"+r+"> no mailbox "+r))
			case code == 452:
				tx.Details = append(tx.Details, fmt.Sprintf("%s=452 4.2.2 %q", r, "<"+r+"> over quota "+r))
			default:
				tx.Details = append(tx.Details, r+"=ok")
			}
		}
		if len(dp.Statuses) > 0 && t.Chance(1, 10) {
			// a slow delivery: one recipient's status comes more than CommandTimeout
			// (5 min) after the previous reply, all within SubmissionTimeout (12 min)
			k := t.Intn(len(dp.Statuses))
			dp.Statuses[k].Park = 6 * time.Minute
			sc.Srv.ReadTO, sc.Srv.WriteTO = 0, 0
			tx.Slow = true
		}
		cp.Data = append(cp.Data, dp)
		tx.DataOp = len(cl.Ops)
		dop := ClientOp{Kind: opData, Body: []byte(fmt.Sprintf("message %d\r\n", m)), UseCb: cb, CloseTwice: t.Chance(1, 4)}
		if !tx.Slow && t.Chance(1, 10) {
			// a slow producer: the rest of the message is written more than CommandTimeout
			// after the 354 (nothing limits the time a client takes to produce a message)
			dop.Parts = []int{3, len(dop.Body)}
			dop.Gap = 6 * time.Minute
			sc.Srv.ReadTO, sc.Srv.WriteTO = 0, 0
			tx.Slow, tx.SlowBody = true, true
		}
		if m > 0 && dop.Parts == nil && t.Chance(1, 4) {
			// while this message is being written, the writer of the one before is closed once
			// more (a late clean-up): an error for that caller, nothing for this message
			dop.Parts = []int{4, len(dop.Body)}
			dop.StaleClose = true
		}
		cl.Ops = append(cl.Ops, dop)
		tx.NoopOp = len(cl.Ops)
		cl.Ops = append(cl.Ops, ClientOp{Kind: opNoop})
		x.Txns = append(x.Txns, tx)
	}
	cl.Ops = append(cl.Ops, ClientOp{Kind: opQuit})
	if t.Bool() {
		cl.Split = []int{1 + t.Intn(40)}
	}
	sc.BE.Conns = []ConnBackendPlan{cp}
	cs := ConnScript{Lat: drawLat(t), LatBack: drawLat(t), Client: cl}
	cs.defaults()
	if t.Bool() {
		// the network re-cuts the server's replies: the client's reply parser meets
		// replies that arrive in pieces, also in the middle of a line or a CRLF
		cs.SrvFaults.WriteSplit = []int{1 + t.Intn(20), 1 + t.Intn(5)}
	}
	slow := false
	for _, tx := range x.Txns {
		slow = slow || tx.Slow
	}
	if !slow && t.Chance(1, 8) {
		// fault stratum: the conversation is broken off somewhere; the client may report
		// anything but a delivery the backend did not make
		x.Fault = 1 + t.Intn(5)
		switch x.Fault {
		case 1:
			sc.Admin = []AdminStep{{At: Dur(t.Intn(80)) * 100 * time.Microsecond, Kind: aClose}}
		case 2:
			k := t.Intn(len(sc.BE.Conns[0].Data))
			sc.BE.Conns[0].Data[k].V = Verdict{Kind: vPanic, Msg: "in LMTPData"}
			sc.BE.Conns[0].Data[k].PanicWhen = t.Intn(4)
		case 3:
			cs.SrvFaults.FailWriteAt = 1 + t.Intn(4+6*ntx)
		case 5:
			cs.CliFailWriteAt = 1 + t.Intn(4+7*ntx)
		default:
			cs.SrvFaults.BlockWriteAt = 1 + t.Intn(4+6*ntx)
			sc.Srv.WriteTO = 0
		}
	}
	sc.Conns = []ConnScript{cs}
	sc.Strata = []string{fmt.Sprintf("txns%d/cb%v", ntx, cb)}
	return sc
}

func checkC18(sc *Scenario, h *History) []Violation {
	var out []Violation
	x := sc.X.(*c18X)
	if x.Stub != nil {
		return checkC18Stub(sc, h, x)
	}
	ch := h.Conns[0]
	if ch.Client == nil {
		return []Violation{{Rule: "C18.harness", Detail: "client did not run"}}
	}
	res := ch.Client.Results
	if x.Fault > 0 {
		// Only this is judged: a recipient reported as delivered is one whose delivery the
		// backend completed with that outcome, and no call outlasts the client's time limits.
		evs := dataEvents(h, 0)
		for ti, tx := range x.Txns {
			if tx.DataOp >= len(res) {
				break
			}
			d := res[tx.DataOp]
			var claimed []int // indexes of accepted recipients reported as delivered
			if tx.UseCb {
				for _, s := range d.Statuses {
					for i, r := range tx.Accepted {
						if s == r+"=250" {
							claimed = append(claimed, i)
						}
					}
				}
			} else if d.Begin != 0 && !d.Skipped && d.DataErr == "" && d.WriteErr == "" && d.Err == "" {
				for i := range tx.Accepted {
					claimed = append(claimed, i)
				}
			}
			prior := false
			for i := 0; i < tx.DataOp; i++ {
				if res[i].Err != "" && !res[i].IsSMTP {
					prior = true // an earlier call failed without an answer: client and server are out of step
				}
			}
			for _, i := range claimed {
				ok := ti < len(evs) && evs[ti].Done && evs[ti].SawEOF && !evs[ti].Panicked && !prior && tx.Codes[i] == 250
				if !ok && ti < len(evs) && !prior {
					// a status the backend set explicitly before it panicked or was cut off stands
					for _, st := range evs[ti].StatusSet {
						if st == tx.Accepted[i]+"=ok" {
							ok = true
						}
					}
				}
				if !ok {
					out = append(out, Violation{Rule: "C18.false-success", Detail: fmt.Sprintf("transaction %d: the conversation was broken off (fault %d) but the client reported recipient %s as delivered (Close=%q statuses=%v)", ti, x.Fault, tx.Accepted[i], d.Err, d.Statuses), Witness: fmt.Sprintf("txn=%d fault=%d cb=%v", ti, x.Fault, tx.UseCb)})
					return out
				}
			}
		}
		for i, r := range res {
			if r.Begin != 0 && r.End-r.Begin > int64(18*time.Minute) {
				out = append(out, Violation{Rule: "C18.hang", Detail: fmt.Sprintf("client op %d (%s) took %v of fake time over a broken conversation", i, opNames[r.Kind], time.Duration(r.End-r.Begin)), Witness: fmt.Sprintf("fault=%d", x.Fault)})
				break
			}
		}
		return out
	}
	for ti, tx := range x.Txns {
		wit := fmt.Sprintf("txn=%d of %d rcpts=%v codes=%v cb=%v", ti, len(x.Txns), tx.Rcpts, tx.Codes, tx.UseCb)
		v := func(rule, format string, a ...interface{}) {
			out = append(out, Violation{Rule: rule, Detail: fmt.Sprintf(format, a...), Witness: wit})
		}
		if tx.DataOp >= len(res) {
			v("C18.harness", "data op missing")
			continue
		}
		d := res[tx.DataOp]
		if d.DataErr != "" {
			v("C18.data", "transaction %d: DATA failed: %s", ti, d.DataErr)
			continue
		}
		if d.End-d.Begin > int64(time.Minute) && !tx.Slow {
			v("C18.close-waits", "transaction %d: Close returned after %v of fake time (err=%q): it waited for replies that never come", ti, time.Duration(d.End-d.Begin), d.Err)
		}
		if tx.UseCb {
			var want []string
			for i, r := range tx.Accepted {
				want = append(want, fmt.Sprintf("%s=%d", r, tx.Codes[i]))
			}
			if fmt.Sprint(d.Statuses) != fmt.Sprint(want) {
				v("C18.statuses", "transaction %d: the callback reported %v, expected %v", ti, d.Statuses, want)
			} else {
				for i, want := range tx.Details {
					if want != "" && i < len(d.StatusDetail) && d.StatusDetail[i] != want {
						v("C18.status-detail", "transaction %d: the callback was handed %v, the server said %v", ti, d.StatusDetail, tx.Details)
						break
					}
				}
			}
			if d.Err != "" && (d.End-d.Begin <= int64(time.Minute) || tx.Slow) {
				v("C18.close-error", "transaction %d: Close with a callback returned %q", ti, d.Err)
			}
		} else {
			if tx.AllOK && d.Err != "" && (d.End-d.Begin <= int64(time.Minute) || tx.Slow) {
				v("C18.close-error", "transaction %d: every recipient was accepted but Close returned %q", ti, d.Err)
			}
			if !tx.AllOK && d.Err == "" {
				v("C18.refusal-lost", "transaction %d: recipients were refused after DATA (%v) but Close without a callback returned nil", ti, tx.Codes)
			}
			if !tx.AllOK && d.Err != "" && !d.IsSMTP && d.End-d.Begin <= int64(time.Minute) {
				v("C18.refusal-lost", "transaction %d: Close returned a non-SMTP error %q for a refusal", ti, d.Err)
			}
		}
		if d.Close2Set {
			// a second Close is an error of the caller's, reported as such and kept off the wire
			if d.Close2Err == "" {
				v("C18.close-twice", "transaction %d: the second Close returned nil", ti)
			}
			if d.RawAfter != d.RawBefore {
				v("C18.close-twice", "transaction %d: the second Close wrote %d octets to the connection", ti, d.RawAfter-d.RawBefore)
			}
		}
		if d.StaleSet {
			if d.StaleErr == "" {
				v("C18.close-twice", "transaction %d: closing the previous message's writer again, while this message was being written, returned nil", ti)
			}
			if d.StaleRaw != 0 {
				v("C18.close-twice", "transaction %d: closing the previous message's writer again put %d octets on the wire in the middle of this message", ti, d.StaleRaw)
			}
		}
		if tx.NoopOp < len(res) && res[tx.NoopOp].Err != "" {
			v("C18.desync", "transaction %d: the NOOP after it failed: %s", ti, res[tx.NoopOp].Err)
		}
		if len(out) > 3 {
			break
		}
	}
	return out
}

func classifyC18(sc *Scenario, h *History, st *Stats) string {
	x := sc.X.(*c18X)
	if x.Stub != nil {
		st.Probes["scripted_lmtp_server"]++
		var key []string
		for i, tx := range x.Stub {
			if tx.Retry {
				st.Probes["DATA_refused_once_then_accepted_in_the_same_transaction"]++
			}
			for _, c := range tx.RcptCode {
				if c == 251 || c == 252 {
					st.Probes["recipient_accepted_with_251_or_252"]++
					break
				}
			}
			if tx.Data != 354 {
				st.Faults["DATA_refused_after_recipients_were_accepted"]++
				if i+1 < len(x.Stub) && !tx.Reset {
					st.Probes["next_Mail_without_Reset_after_refused_DATA"]++
				}
			}
			key = append(key, fmt.Sprintf("%v/%d/%v/%v/%v", tx.RcptCode, tx.Data, tx.Finals, tx.UseCb, tx.Reset))
		}
		return "stub" + fmt.Sprint(key)
	}
	if len(x.Txns) > 1 {
		st.Probes["second_or_later_transaction"]++
	}
	if x.Fault > 0 {
		st.Faults["conversation_broken_off_"+[]string{"", "by_Server.Close", "by_backend_panic", "by_failing_reply_write", "by_blocked_reply_write", "by_failing_client_write"}[x.Fault]]++
	}
	if c := h.Conns[0].Client; c != nil {
		for _, r := range c.Results {
			if r.StaleSet {
				st.Probes["previous_writer_closed_again_inside_the_next_message"]++
				break
			}
		}
	}
	var key []string
	for _, tx := range x.Txns {
		if len(tx.Rcpts) > len(tx.Accepted) {
			st.Probes["recipient_refused_at_RCPT"]++
		}
		if !tx.AllOK {
			st.Probes["recipient_refused_after_DATA"]++
		}
		if tx.Slow && !tx.SlowBody {
			st.Faults["per_recipient_reply_later_than_CommandTimeout"]++
		}
		if tx.SlowBody {
			st.Faults["message_produced_slower_than_CommandTimeout"]++
		}
		if tx.MultiLine {
			st.Probes["multi_line_per_recipient_reply"]++
		}
		key = append(key, fmt.Sprintf("%d/%v/%v", len(tx.Rcpts), tx.Codes, tx.UseCb))
	}
	return fmt.Sprint(key)
}

func init() {
	register(&Property{
		ID: "C18", Level: "exploration",
		Rule:     "real LMTP smtp.Client against the real LMTP smtp.Server with a per-recipient backend: 1-3 consecutive transactions (systematic) x 1-3 accepted recipients each, some extra recipients refused at RCPT, per-recipient verdicts {250, 550, 452} set before/after reading/after a park, LMTPData with a callback or Data without (systematic), a NOOP after every transaction. Every case is non-trivial; distinct by the per-transaction (recipient count, verdict vector, API) list. Replies re-cut by the network; a per-recipient status or the message itself later than CommandTimeout; the same broken-off-exchange stratum as C16 with a per-recipient false-success oracle. In a quarter of the later transactions the previous message's writer is closed once more after this message's first Write: an error for that caller, no octet on the wire. The scripted server accepts some recipients with 251 or 252, which count as accepted like 250.",
		Gen:      genC18,
		Check:    checkC18,
		Classify: classifyC18,
		Sweep: func(tier string) []map[string]int {
			reps := 1500
			if tier == "thorough" {
				reps = 100000
			}
			var out []map[string]int
			for r := 0; r < reps; r++ {
				for n := 0; n < 3; n++ {
					for c := 0; c < 2; c++ {
						out = append(out, map[string]int{"c18ntx": n, "c18cb": c})
					}
				}
			}
			return out
		},
		Real:        []string{"smtp.Client (NewClientLMTP, Mail, Rcpt, LMTPData, Data, dataCloser.Close, Noop, Quit)", "smtp.Server in LMTP mode, handleDataLMTP, statusCollector", "net/textproto"},
		Stub:        []string{"net.Listener (SimListener)", "net.Conn (SimConn)", "Backend/LMTPSession (SimBackend)", "in a fifth of the seeded runs the peer is a scripted LMTP server instead of smtp.Server (it can refuse DATA after accepting recipients, which the real server never does)", "clock (synctest): a Close that waits for replies that never come costs 12 fake minutes and is detected as such"},
		Assumptions: []string{"'Close returns once exactly those replies have been read' is judged as: within one fake minute, and the following NOOP gets its own reply"},
		Required:    []string{"second_or_later_transaction", "recipient_refused_after_DATA", "recipient_refused_at_RCPT", "per_recipient_reply_later_than_CommandTimeout", "message_produced_slower_than_CommandTimeout", "conversation_broken_off_by_Server.Close", "conversation_broken_off_by_backend_panic", "conversation_broken_off_by_failing_reply_write", "conversation_broken_off_by_blocked_reply_write", "multi_line_per_recipient_reply", "DATA_refused_once_then_accepted_in_the_same_transaction", "DATA_refused_after_recipients_were_accepted", "next_Mail_without_Reset_after_refused_DATA", "previous_writer_closed_again_inside_the_next_message", "recipient_accepted_with_251_or_252"},
		Instr:       true,
		QuickRuns:   120000, ThoroughRuns: 2000000,
	})
}
