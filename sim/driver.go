package sim

import (
	"crypto/tls"
	"io"
	"net"
	"time"
)

// ConnHistory is everything recorded about one connection.
type ConnHistory struct {
	ID      int
	Sent    []byte // application-level octets the client wrote (all epochs)
	SentLog []WRec
	Recv    []byte // application-level octets the client read
	RecvLog []RRec
	TLSSent int // offset in Sent at which the TLS epoch starts, -1 = none
	TLSRecv int

	StepOff     []int // logical offset in Sent at which step i starts, -1 = not sent
	StepEnd     []int
	StepSkipped []bool
	StepCode    []int // code of the last reply awaited after step i (0 = none)
	AwaitTO     []int // steps whose wait timed out

	EndErr        string
	EndAt         int64
	CutDone       bool
	CutAt         int64
	HandshakeErr  string
	HandshakeDone bool
	Offered       bool // the listener took the connection into its backlog
	Accepted      bool // Accept returned it to the server
	AcceptedAt    int64

	C2S, S2C HalfRecord
	Client   *ClientHistory
	Stub     *StubHistory

	SrvCloseSeq         int // backend events recorded before the server closed its endpoint, -1 = it never did
	SrvLateWrites       int // server Write calls after it had closed its endpoint
	SrvBlocked          int // server writes that found the send window full
	SrvBlockedTO        int // ... and were ended by the write deadline
	SrvBlockedUnderLock int // writes that would block for ever, issued while Conn.locker was held
}

type driver struct {
	sc     *ConnScript
	h      *ConnHistory
	raw    *SimConn
	cur    net.Conn
	class  int
	lmtp   bool
	tlsCfg *tls.Config

	implicit bool

	pending  []byte
	scanPos  int
	nreplies int
	lastCode int
	accepted int
	ended    bool
}

func (d *driver) park(x Dur) {
	if x > 0 {
		sleepClass(d.class, x)
	}
}

// onBytes scans newly received octets for complete replies.
func (d *driver) onBytes() {
	for {
		i := -1
		for j := d.scanPos; j < len(d.h.Recv); j++ {
			if d.h.Recv[j] == '\n' {
				i = j
				break
			}
		}
		if i < 0 {
			return
		}
		line := d.h.Recv[d.scanPos:i]
		d.scanPos = i + 1
		if len(line) >= 4 && line[3] == '-' {
			continue
		}
		d.nreplies++
		code := 0
		if len(line) >= 3 && isDigits(line[:3]) {
			code = int(line[0]-'0')*100 + int(line[1]-'0')*10 + int(line[2]-'0')
		}
		d.lastCode = code
	}
}

// readSome performs one Read bounded by a fake-time deadline.
func (d *driver) readSome(to Dur) error {
	if d.ended {
		return io.EOF
	}
	d.cur.SetReadDeadline(time.Now().Add(to))
	var buf [4096]byte
	n, err := d.cur.Read(buf[:])
	if n > 0 {
		d.h.RecvLog = append(d.h.RecvLog, RRec{Off: len(d.h.Recv), N: n, At: time.Now().UnixNano()})
		d.h.Recv = append(d.h.Recv, buf[:n]...)
		d.onBytes()
	}
	if err != nil {
		if ne, ok := err.(net.Error); ok && ne.Timeout() {
			return err
		}
		d.ended = true
		d.h.EndErr = err.Error()
		d.h.EndAt = time.Now().UnixNano()
	}
	return err
}

// await waits until n more complete replies have arrived.
func (d *driver) await(step, n int) { d.awaitWithin(step, n, d.sc.AwaitTO) }

func (d *driver) awaitWithin(step, n int, to Dur) {
	target := d.nreplies + n
	start := time.Now()
	for d.nreplies < target {
		left := to - time.Since(start)
		if left <= 0 {
			d.h.AwaitTO = append(d.h.AwaitTO, step)
			return
		}
		if err := d.readSome(left); err != nil {
			if ne, ok := err.(net.Error); ok && ne.Timeout() {
				d.h.AwaitTO = append(d.h.AwaitTO, step)
			}
			return
		}
	}
}

// awaitQuiet reads until nothing has arrived for q of fake time.
func (d *driver) awaitQuiet(q Dur) {
	for {
		if err := d.readSome(q); err != nil {
			return
		}
	}
}

func (d *driver) write(b []byte) {
	if d.h.CutDone || len(b) == 0 {
		return
	}
	cutNow := false
	if d.sc.Cut >= 0 && len(d.h.Sent)+len(b) >= d.sc.Cut {
		b = b[:d.sc.Cut-len(d.h.Sent)]
		cutNow = true
	}
	if len(b) > 0 {
		d.h.SentLog = append(d.h.SentLog, WRec{Off: len(d.h.Sent), N: len(b), At: time.Now().UnixNano()})
		d.h.Sent = append(d.h.Sent, b...)
		d.cur.Write(b)
	}
	if cutNow {
		d.doCut()
	}
}

func (d *driver) doCut() {
	d.h.CutDone = true
	d.h.CutAt = time.Now().UnixNano()
	switch d.sc.CutKind {
	case cutRST:
		d.raw.Reset()
		d.ended = true
	case cutHalf:
		d.raw.CloseWrite()
	case cutStall:
		// keep the connection open and silent
	default:
		d.raw.Close()
		d.ended = true
	}
}

func (d *driver) send(st *Step) {
	data := st.Data
	if len(d.pending) > 0 {
		data = append(append([]byte{}, d.pending...), st.Data...)
		d.pending = nil
	}
	off, k := 0, 0
	for off < len(data) && !d.h.CutDone {
		sz := len(data) - off
		if len(st.Segs) > 0 {
			if s := st.Segs[k%len(st.Segs)]; s > 0 && s < sz {
				sz = s
			}
		}
		if st.Glue && off+sz == len(data) {
			d.pending = append([]byte{}, data[off:]...)
			return
		}
		if len(st.Gaps) > 0 {
			d.park(st.Gaps[k%len(st.Gaps)])
		}
		d.write(data[off : off+sz])
		off += sz
		k++
	}
}

func (d *driver) run(offer func(net.Conn) bool) {
	h := d.h
	n := len(d.sc.Steps)
	h.StepOff = make([]int, n)
	h.StepEnd = make([]int, n)
	h.StepSkipped = make([]bool, n)
	h.StepCode = make([]int, n)
	for i := range h.StepOff {
		h.StepOff[i] = -1
		h.StepEnd[i] = -1
	}
	// always move to an instant of this driver's own class first: several
	// connections dialling "at 0" must not race for the listener's queue
	sleepClass(d.class, d.sc.DialAt)
	h.Offered = offer(nil)
	if !h.Offered {
		d.raw.Close()
		return
	}
	if d.sc.Silent {
		for d.readSome(d.sc.IdleEnd) == nil {
		}
		if !d.sc.NoClose {
			d.cur.Close()
		}
		return
	}
	if d.implicit {
		d.handshake()
	}
	if d.sc.Cut == 0 {
		d.doCut()
	}
	for i := range d.sc.Steps {
		st := &d.sc.Steps[i]
		if d.h.CutDone {
			break
		}
		if st.Need != 0 && d.lastCode != st.Need {
			// (replies are only read while a step waits, so the pause cannot change this)
			h.StepSkipped[i] = true
			continue
		}
		d.park(st.Pre)
		if st.Kind != kGreetWait && st.Kind != kStall {
			h.StepOff[i] = len(h.Sent) + len(d.pending)
			d.send(st)
			h.StepEnd[i] = len(h.Sent) + len(d.pending)
			if d.h.CutDone {
				break
			}
		}
		switch {
		case st.Kind == kStartTLS:
			// wait for the 220, whatever discipline is in use - unless plaintext is
			// injected behind the command first
			if !isInjectNext(d.sc.Steps, i) {
				if st.Wait > 0 {
					d.await(i, st.Wait)
				} else {
					d.awaitQuiet(2 * time.Second)
				}
				h.StepCode[i] = d.lastCode
			}
		case st.Wait > 0:
			d.await(i, st.Wait)
			h.StepCode[i] = d.lastCode
		case st.Wait == -1:
			nn := 1
			if d.lmtp && d.accepted > 1 {
				nn = d.accepted
			}
			// The first reply may take as long as a delivery takes; a refusal of the command
			// itself is that one reply, a final LMTP response goes on with one reply per
			// recipient, which follow within a minute.
			d.await(i, 1)
			if nn > 1 && !d.ended && d.lastCode != 501 && d.lastCode != 502 && d.lastCode != 503 {
				burst := time.Minute
				if d.sc.AwaitTO < burst {
					burst = d.sc.AwaitTO
				}
				d.awaitWithin(i, nn-1, burst)
			}
			if d.lmtp && !d.ended {
				// The size of an LMTP final response is the server's business
				// (e.g. after a second MAIL inside a transaction): take whatever
				// else arrives in the same burst.
				d.awaitQuiet(50 * time.Millisecond)
			}
			h.StepCode[i] = d.lastCode
		}
		if st.Wait != 0 {
			switch st.Kind {
			case kMail:
				if d.lastCode == 250 {
					d.accepted = 0
				}
			case kRset, kHelo:
				if d.lastCode == 250 {
					d.accepted = 0
				}
			case kRcpt:
				if d.lastCode/100 == 2 {
					d.accepted++
				}
			}
		}
		if st.Kind == kStartTLS && d.lastCode == 220 && !d.ended && !isInjectNext(d.sc.Steps, i) {
			d.handshake()
		}
		if st.Kind == kInject && !d.ended && d.lastCode == 220 {
			// injected plaintext has been written and the 220 has arrived: start the handshake
			d.handshake()
		}
	}
	if len(d.pending) > 0 && !h.CutDone {
		p := d.pending
		d.pending = nil
		d.write(p)
	}
	if h.CutDone && (d.sc.CutKind == cutFIN || d.sc.CutKind == cutRST || d.sc.CutKind == cutNone) {
		return
	}
	// read whatever is still coming
	idle := d.sc.IdleEnd
	if h.CutDone && d.sc.CutKind == cutStall {
		idle = 2 * time.Hour / 4
	}
	for {
		if err := d.readSome(idle); err != nil {
			break
		}
	}
	if !d.sc.NoClose {
		d.cur.Close()
	}
}

func isInjectNext(steps []Step, i int) bool {
	return i+1 < len(steps) && steps[i+1].Kind == kInject
}

func (d *driver) handshake() {
	tc := tls.Client(d.raw, d.tlsCfg)
	d.raw.SetReadDeadline(time.Now().Add(d.sc.AwaitTO))
	err := tc.Handshake()
	d.raw.SetReadDeadline(time.Time{})
	if err != nil {
		d.h.HandshakeErr = err.Error()
		d.ended = true
		d.h.EndErr = "handshake: " + err.Error()
		d.h.EndAt = time.Now().UnixNano()
		return
	}
	d.h.HandshakeDone = true
	d.h.TLSSent = len(d.h.Sent)
	d.h.TLSRecv = len(d.h.Recv)
	d.cur = tc
}
