package sim

import (
	"fmt"
	"os"
	"regexp"
	"sort"
	"strings"
)

// The race tier: the same scenarios run in a binary built with -race. The Go
// race detector is the oracle; its reports are read from its log file after
// every run and attributed to that run.

type raceLog struct {
	path string
	off  int64
}

func openRaceLog() *raceLog {
	p := os.Getenv("VERIF_RACELOG")
	if p == "" {
		return nil
	}
	return &raceLog{path: fmt.Sprintf("%s.%d", p, os.Getpid())}
}

// RaceReport is one report of the detector.
type RaceReport struct {
	Key     string // unordered pair of access sites
	Text    string
	Harness bool // an accessing frame is harness code, none is library code
}

var raceAccessRe = regexp.MustCompile(`(?m)^(Read|Write|Previous read|Previous write|Atomic read|Atomic write|Previous atomic read|Previous atomic write) at 0x[0-9a-f]+ by `)

func (r *raceLog) poll() []RaceReport {
	if r == nil {
		return nil
	}
	f, err := os.Open(r.path)
	if err != nil {
		return nil
	}
	defer f.Close()
	st, err := f.Stat()
	if err != nil || st.Size() <= r.off {
		return nil
	}
	buf := make([]byte, st.Size()-r.off)
	n, _ := f.ReadAt(buf, r.off)
	r.off += int64(n)
	return parseRaceReports(string(buf[:n]))
}

func parseRaceReports(text string) []RaceReport {
	var out []RaceReport
	for _, blk := range strings.Split(text, "==================") {
		if !strings.Contains(blk, "WARNING: DATA RACE") {
			continue
		}
		locs := raceAccessRe.FindAllStringIndex(blk, -1)
		var sites []string
		lib, harness := false, false
		for i, loc := range locs {
			end := len(blk)
			if i+1 < len(locs) {
				end = locs[i+1][0]
			}
			if j := strings.Index(blk[loc[0]:end], "\n\n"); j >= 0 {
				end = loc[0] + j
			}
			stanza := blk[loc[0]:end]
			site, isLib, isHarness := accessSite(stanza)
			sites = append(sites, site)
			lib = lib || isLib
			harness = harness || isHarness
		}
		sort.Strings(sites)
		out = append(out, RaceReport{Key: strings.Join(sites, " <-> "), Text: strings.TrimSpace(blk), Harness: harness && !lib})
	}
	return out
}

// accessSite attributes an access stanza to the first frame below the runtime
// and standard library that is either library (go-smtp) or harness code.
func accessSite(stanza string) (site string, lib, harness bool) {
	lines := strings.Split(stanza, "\n")
	first := ""
	for i := 1; i+1 < len(lines); i++ {
		fn := strings.TrimSpace(lines[i])
		loc := strings.TrimSpace(lines[i+1])
		if fn == "" || !strings.Contains(loc, ".go:") {
			continue
		}
		i++
		if j := strings.Index(loc, " +0x"); j > 0 {
			loc = loc[:j]
		}
		if k := strings.LastIndex(loc, "/"); k >= 0 {
			loc = loc[k+1:]
		}
		fn = strings.TrimSuffix(fn, "()")
		entry := fn + " " + loc
		if first == "" {
			first = entry
		}
		if strings.HasPrefix(fn, "verif/sim.") {
			return entry, false, true
		}
		if strings.Contains(fn, "emersion/go-smtp.") {
			return entry, true, false
		}
	}
	return first, false, false
}
