package sim

import (
	"math/rand/v2"
)

// Tape is the single source of every random choice of one run. Values are
// stored already reduced (v mod n) so that tape-level shrinking ("make a
// value smaller") maps to "make a simpler choice": by convention alternative
// 0 of every draw is the simplest one (no fault, no delay, first variant).
// Replaying a tape regenerates the same scenario; an exhausted replay tape
// yields zeros.
type Tape struct {
	Vals []uint64
	pos  int
	src  *rand.Rand // nil when replaying a recorded tape
	// Over holds named, externally forced choices (systematic sweeps such as
	// "cut the client stream at octet k"). A named draw consults Over first.
	Over map[string]int
}

// NewTape returns a recording tape drawing from PCG(seed, run).
func NewTape(seed, run uint64) *Tape {
	return &Tape{src: rand.New(rand.NewPCG(seed, run^0x9e3779b97f4a7c15))}
}

// ReplayTape returns a tape that replays vals and then yields zeros.
func ReplayTape(vals []uint64, over map[string]int) *Tape {
	cp := make([]uint64, len(vals))
	copy(cp, vals)
	ov := map[string]int{}
	for k, v := range over {
		ov[k] = v
	}
	return &Tape{Vals: cp, Over: ov}
}

func (t *Tape) next(n uint64) uint64 {
	if n <= 1 {
		return 0
	}
	if t.pos < len(t.Vals) {
		v := t.Vals[t.pos] % n
		t.pos++
		return v
	}
	t.pos++
	if t.src == nil {
		return 0
	}
	v := t.src.Uint64() % n
	t.Vals = append(t.Vals, v)
	return v
}

// Used returns the number of draws made so far.
func (t *Tape) Used() int { return t.pos }

// Intn draws from [0,n).
func (t *Tape) Intn(n int) int {
	if n <= 1 {
		return 0
	}
	return int(t.next(uint64(n)))
}

// Range draws from [lo,hi] inclusive.
func (t *Tape) Range(lo, hi int) int {
	if hi <= lo {
		return lo
	}
	return lo + t.Intn(hi-lo+1)
}

// Bool draws a fair coin; false is the simple alternative.
func (t *Tape) Bool() bool { return t.Intn(2) == 1 }

// Chance is true with probability num/den; false is the simple alternative.
func (t *Tape) Chance(num, den int) bool {
	// value 0 must map to false: true iff v >= den-num
	return t.Intn(den) >= den-num
}

// Pick draws an index according to integer weights; index 0 is the simple one.
func (t *Tape) Pick(weights ...int) int {
	sum := 0
	for _, w := range weights {
		sum += w
	}
	v := t.Intn(sum)
	for i, w := range weights {
		if v < w {
			return i
		}
		v -= w
	}
	return len(weights) - 1
}

// Byte draws one octet.
func (t *Tape) Byte() byte { return byte(t.Intn(256)) }

// Named is a draw that a sweep can force from outside. n is the size of the
// range; a forced value is reduced mod n.
func (t *Tape) Named(name string, n int) int {
	// A tape value is consumed whether or not the choice is forced, so that a
	// forced run stays aligned with the unforced run it was derived from.
	drawn := t.Intn(n)
	if v, ok := t.Over[name]; ok {
		if n <= 1 {
			return 0
		}
		if v < 0 {
			v = 0
		}
		return v % n
	}
	return drawn
}

// HasOver reports whether a named override is present.
func (t *Tape) HasOver(name string) bool {
	_, ok := t.Over[name]
	return ok
}

// Dur draws a delay: 0 with probability 1/2, else one of a few magnitudes.
func (t *Tape) Dur() Dur {
	switch t.Pick(6, 3, 2, 1) {
	case 0:
		return 0
	case 1:
		return Dur(1+t.Intn(50)) * 1000 // 1-50us
	case 2:
		return Dur(1+t.Intn(20)) * 1000000 // 1-20ms
	default:
		return Dur(1+t.Intn(5)) * 1000000000 // 1-5s
	}
}

// SmallDur draws a short delay (never seconds): used where the delay is paid
// once per read of a long message.
func (t *Tape) SmallDur() Dur {
	switch t.Pick(5, 3, 2) {
	case 0:
		return 0
	case 1:
		return Dur(1+t.Intn(50)) * 1000
	default:
		return Dur(1+t.Intn(20)) * 1000000
	}
}
