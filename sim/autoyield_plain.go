//go:build !verifinstr

package sim

import smtp "github.com/emersion/go-smtp"

// The ordinary build of the library has no inserted yield points (see autoyield_instr.go).

func autoSites() []string { return nil }

func installAutoYield(cfg *AutoYieldCfg, h *History) func() { return func() {} }

func autoRegisterConn(c *smtp.Conn) {}

func autoRegisterServer(s *smtp.Server) {}
