package sim

import (
	"bytes"
	"fmt"
	"strings"
	"time"
)

// C02 - only CRLF.CRLF ends DATA; commands resume exactly after it.

type c02X struct {
	Flow       bool   // flow-control stratum: unbuffered network, long message, backend that stops reading early
	Want       []byte // reference message
	Stream     []byte
	NRcpt      int
	Markers    []string // expected code class / code per marker, e.g. "250"
	MarkMail   string   // address of the marker MAIL ("" if none)
	ReadAll    bool
	LimitKind  int  // 0 none, 1 below, 2 at, 3 above
	Stall      bool // the client pauses inside the message for longer than ReadTimeout
	Panic      bool // the backend panics inside Data (at entry, after reading a part, or at the end)
	WriteFault bool // LMTP: a per-recipient status is set before the message is read and the write of its reply fails
}

var lookAlikes = []string{"\n.\n", "\n.\r\n", "\r\n.\n", "\r.\r", "\r\n.\rX", "\r\n.x\r\n", "\r\n..\r\n", "\n.\r", "\r.\r\n", ".\n"}

func genC02(t *Tape, tier string) *Scenario {
	sc := &Scenario{Prop: "C02"}
	sc.Srv = drawCfg(t, cfgOpts{allowTLS: true})
	sc.Srv.MaxRcpt = 0
	if sc.Srv.MaxLine != 0 && sc.Srv.MaxLine < 200 {
		sc.Srv.MaxLine = 200
	}
	mode := t.Named("c02mode", 3) // 0 SMTP, 1 LMTP plain backend, 2 LMTP per-recipient backend
	sc.Srv.LMTP = mode != 0
	if mode == 2 {
		sc.BE.Flavor = beLMTP
	}
	x := &c02X{}
	sc.X = x

	// message body with baits and end-marker look-alikes
	var body []byte
	ntok := 1 + t.Intn(8)
	nb := 0
	for i := 0; i < ntok; i++ {
		switch t.Pick(3, 3, 3, 1) {
		case 0:
			body = append(body, line("text line %d", i)...)
		case 1:
			body = append(body, lookAlikes[t.Intn(len(lookAlikes))]...)
		case 2:
			switch t.Pick(3, 2, 1, 1) {
			case 0:
				body = append(body, line("MAIL FROM:<ok-bait-%d@evil.example>", nb)...)
			case 1:
				body = append(body, line("RCPT TO:<ok-bait-%d@evil.example>", nb)...)
			case 2:
				body = append(body, "RSET\r\n"...)
			default:
				body = append(body, "QUIT\r\n"...)
			}
			nb++
		default:
			body = append(body, line("MAIL FROM:<ok-bait-%d@evil.example>", nb)[:10+t.Intn(10)]...)
			nb++
		}
	}
	if t.Chance(1, 10) {
		// flow-control stratum: a network that buffers nothing (a Write returns when the peer
		// has read it), a long message and a backend that stops reading early: the server
		// has to take the rest of the message before the client can get to reading the reply
		x.Flow = true
		var pad []byte
		for i, n := 0, 150+t.Intn(60); i < n; i++ {
			pad = append(pad, line("padding line %04d of a long message, sixty octets or so wide", i)...)
		}
		body = append(pad, body...)
	}
	stream := append(append([]byte{}, body...), "\r\n.\r\n"...)
	want, consumed, _ := unstuff(stream)
	stream = stream[:consumed]
	x.Want, x.Stream = want, stream

	x.LimitKind = t.Named("c02limit", 4)
	switch x.LimitKind {
	case 1:
		sc.Srv.MaxMsg = int64(maxInt(1, len(want)/2))
	case 2:
		sc.Srv.MaxMsg = int64(maxInt(1, len(want)))
	case 3:
		sc.Srv.MaxMsg = int64(len(want) + 10)
	}

	// backend behaviour
	dp := DataPlan{ReadSizes: drawReadSizes(t), ParkReads: drawParks(t)}
	dp.ReadMode = t.Named("c02read", 3)
	if dp.ReadMode == readK {
		dp.ReadK = t.Intn(len(want) + 1)
	}
	if x.Flow && dp.ReadMode == readAll {
		dp.ReadMode, dp.ReadK = readK, t.Intn(2000)
	}
	x.ReadAll = dp.ReadMode == readAll
	switch t.Named("c02verdict", 3) {
	case 1:
		dp.V = Verdict{Kind: vSMTP, Code: 554, Enh: [3]int{5, 6, 0}, Msg: "rejected by content filter"}
	case 2:
		dp.V = Verdict{Kind: vPlain, Msg: "disk full"}
	}
	if t.Chance(1, 12) {
		// fault stratum: the backend panics with a part of the message unread
		x.Panic = true
		dp.V = Verdict{Kind: vPanic, Msg: "in Data"}
		dp.PanicWhen = t.Intn(3)
	}
	if sc.BE.Flavor == beLMTP && t.Chance(1, 3) {
		dp.Statuses = []StatusCall{{Addr: "ok-r0@b.example", V: Verdict{Kind: vSMTP, Code: 452, Enh: [3]int{4, 2, 2}, Msg: "mailbox full"}, When: t.Intn(3)}}
	}
	dp.ParkAfter = t.Dur()
	sc.BE.Conns = []ConnBackendPlan{{Data: []DataPlan{dp}}}

	cs := ConnScript{Lat: drawLat(t), SrvCaps: drawCaps(t)}
	x.NRcpt = 1 + t.Intn(2)
	steps := []Step{{Kind: kGreetWait, Wait: 1}, {Kind: kHelo, Data: heloLine(sc.Srv), Wait: 1},
		{Kind: kMail, Data: line("MAIL FROM:<ok-s@a.example>"), Wait: 1}}
	for r := 0; r < x.NRcpt; r++ {
		steps = append(steps, Step{Kind: kRcpt, Data: line("RCPT TO:<ok-r%d@b.example>", r), Wait: 1})
	}
	steps = append(steps, Step{Kind: kData, Data: []byte("DATA\r\n"), Wait: 1})
	var special []int
	for i := 0; i < len(stream) && len(special) < 64; i++ {
		if stream[i] == '\r' || stream[i] == '\n' || stream[i] == '.' {
			special = append(special, i, i+1)
		}
	}
	glue := t.Bool()
	body1 := Step{Kind: kBody, Data: stream, Need: 354, Segs: drawSegs(t, len(stream), special), Gaps: drawGaps(t), Glue: glue}
	if !x.Flow && t.Chance(1, 12) && len(stream) > 8 {
		// fault stratum: the client stalls inside the message until the server's read deadline has passed
		x.Stall = true
		sc.Srv.ReadTO = 10 * time.Minute
		k := 1 + t.Intn(len(stream)-1)
		body1.Segs = []int{k, len(stream)}
		body1.Gaps = []Dur{0, 11 * time.Minute}
	}
	if sc.BE.Flavor == beLMTP && len(dp.Statuses) > 0 && dp.Statuses[0].When == 0 && !x.Stall && !x.Panic && !x.Flow && len(stream) > 8 && t.Chance(1, 2) {
		// fault stratum: the backend reports a recipient's status before it has read the
		// message, the rest of which is still on its way, and the write of that early
		// reply fails (the client is busy sending): the message text that follows is
		// still message text
		x.WriteFault = true
		cs.SrvFaults.FailWriteAt = 3 + x.NRcpt + 1 + 1
		k := 1 + t.Intn(len(stream)-1)
		body1.Segs = []int{k, len(stream)}
		body1.Gaps = []Dur{0, Dur(1+t.Intn(5)) * time.Millisecond}
		sc.BE.Conns[0].Data[0].ParkReads = []Dur{2 * time.Millisecond}
		cs.AwaitTO = 5 * time.Second
	}
	steps = append(steps, body1)
	nm := 1 + t.Intn(4)
	inTxn := false
	for m := 0; m < nm; m++ {
		var st Step
		switch t.Pick(2, 3, 1, 1) {
		case 0:
			st = Step{Kind: kMarker, Data: []byte("NOOP\r\n")}
			x.Markers = append(x.Markers, "250")
		case 1:
			if !inTxn {
				addr := fmt.Sprintf("ok-marker-%d@a.example", m)
				st = Step{Kind: kMarker, Data: line("MAIL FROM:<%s>", addr)}
				x.Markers = append(x.Markers, "250")
				if x.MarkMail == "" {
					x.MarkMail = addr
				}
				inTxn = true
			} else {
				st = Step{Kind: kMarker, Data: line("RCPT TO:<ok-mrcpt-%d@b.example>", m)}
				x.Markers = append(x.Markers, "250")
			}
		case 2:
			st = Step{Kind: kMarker, Data: []byte("RSET\r\n")}
			x.Markers = append(x.Markers, "250")
			inTxn = false
		default:
			st = Step{Kind: kMarker, Data: []byte("VRFY someone\r\n")}
			x.Markers = append(x.Markers, "252")
		}
		st.Need = 0
		st.Glue = t.Chance(1, 2)
		st.Pre = 0
		if !st.Glue && t.Chance(1, 3) {
			st.Pre = t.Dur()
		}
		steps = append(steps, st)
	}
	steps = append(steps, Step{Kind: kQuit, Data: []byte("QUIT\r\n")})
	if x.Flow {
		// strictly one step at a time: a client that writes while a reply waits to be read
		// would block itself
		for i := range steps {
			st := &steps[i]
			st.Glue, st.Segs, st.Gaps = false, nil, nil
			switch st.Kind {
			case kBody:
				st.Wait = -1
			case kMarker, kQuit:
				st.Wait = 1
			}
		}
		cs.SrvFaults.Rendezvous = true
		cs.SrvCaps = nil
		sc.Srv.ReadTO, sc.Srv.WriteTO = 0, 0
		sc.BE.Conns[0].Data[0].ParkReads = nil
	}
	cs.Steps = steps
	cs.defaults()
	sc.Conns = []ConnScript{cs}
	sc.Strata = []string{fmt.Sprintf("mode%d/read%d/limit%d", mode, dp.ReadMode, x.LimitKind)}
	return sc
}

func checkC02(sc *Scenario, h *History) []Violation {
	var out []Violation
	x := sc.X.(*c02X)
	ch := h.Conns[0]
	wit := fmt.Sprintf("stream=%q lmtp=%v flavor=%d limit=%d", clip(string(x.Stream), 100), sc.Srv.LMTP, sc.BE.Flavor, sc.Srv.MaxMsg)
	// (1) no bait address ever reaches the backend
	for _, e := range h.Events {
		if (e.Kind == "Mail" || e.Kind == "Rcpt") && strings.Contains(e.Arg, "bait") {
			out = append(out, Violation{Rule: "C02.bait-executed", Detail: fmt.Sprintf("message text was executed as a command: backend %s(%q)", e.Kind, e.Arg), Witness: wit})
			return out
		}
	}
	if x.Stall || x.Panic || x.WriteFault {
		// After the injected timeout, panic or write failure only "never executed as a command" is judged.
		return out
	}
	replies, _ := parseReplies(ch.Recv)
	// the body was only sent if DATA got 354
	bodyIdx := -1
	for i, s := range sc.Conns[0].Steps {
		if s.Kind == kBody {
			bodyIdx = i
		}
	}
	if ch.StepOff[bodyIdx] < 0 {
		out = append(out, Violation{Rule: "C02.data-refused", Detail: "DATA with a valid envelope was not answered 354", Witness: wit})
		return out
	}
	nfinal := 1
	if sc.Srv.LMTP {
		nfinal = x.NRcpt
	}
	pre := 3 + x.NRcpt + 1 // greeting, helo, mail, rcpts, 354
	wantN := pre + nfinal + len(x.Markers) + 1
	codes := func() string {
		var s []string
		for _, r := range replies {
			s = append(s, fmt.Sprint(r.Code))
		}
		return strings.Join(s, " ")
	}
	if len(replies) != wantN {
		out = append(out, Violation{Rule: "C02.reply-count", Detail: fmt.Sprintf("expected %d replies (%d before the message, %d final, %d markers, QUIT), got %d: %s", wantN, pre, nfinal, len(x.Markers), len(replies), codes()), Witness: wit})
		return out
	}
	// (2) markers answered in order with their own outcome, then 221
	for i, m := range x.Markers {
		r := replies[pre+nfinal+i]
		if fmt.Sprint(r.Code) != m {
			out = append(out, Violation{Rule: "C02.marker-reply", Detail: fmt.Sprintf("marker %d expected %s, got %s (all codes: %s)", i, m, r, codes()), Witness: wit})
			return out
		}
	}
	if replies[wantN-1].Code != 221 {
		out = append(out, Violation{Rule: "C02.marker-reply", Detail: fmt.Sprintf("QUIT after the markers answered %s", replies[wantN-1]), Witness: wit})
	}
	if x.MarkMail != "" {
		found := false
		for _, e := range h.Events {
			if e.Kind == "Mail" && e.Arg == x.MarkMail {
				found = true
			}
		}
		if !found {
			out = append(out, Violation{Rule: "C02.marker-lost", Detail: fmt.Sprintf("marker MAIL FROM:<%s> never reached the backend", x.MarkMail), Witness: wit})
		}
	}
	// (3) what the backend saw is a prefix of the reference message, all of it when it read everything without a limit
	evs := dataEvents(h, 0)
	if len(evs) != 1 {
		out = append(out, Violation{Rule: "C02.data-calls", Detail: fmt.Sprintf("expected one Data call, got %d", len(evs)), Witness: wit})
		return out
	}
	ev := evs[0]
	if !bytes.HasPrefix(x.Want, ev.Read) {
		out = append(out, Violation{Rule: "C02.message", Detail: fmt.Sprintf("backend read %q which is not a prefix of the reference message %q", clip(string(ev.Read), 120), clip(string(x.Want), 120)), Witness: wit})
	} else if x.ReadAll && (sc.Srv.MaxMsg == 0 || int64(len(x.Want)) < sc.Srv.MaxMsg) {
		if !bytes.Equal(ev.Read, x.Want) || !ev.SawEOF {
			out = append(out, Violation{Rule: "C02.message", Detail: fmt.Sprintf("backend read %d of %d message octets, terminal=%q", len(ev.Read), len(x.Want), ev.Terminal), Witness: wit})
		}
	}
	return out
}

func classifyC02(sc *Scenario, h *History, st *Stats) string {
	x := sc.X.(*c02X)
	hasBait := bytes.Contains(x.Stream, []byte("bait"))
	hasLook := false
	for _, l := range lookAlikes {
		if bytes.Contains(x.Stream[:maxInt(0, len(x.Stream)-5)], []byte(l)) {
			hasLook = true
		}
	}
	if hasLook {
		st.Probes["terminator_lookalike_in_body"]++
	}
	if hasBait {
		st.Probes["bait_command_in_body"]++
	}
	if sc.Srv.MaxMsg > 0 && int64(len(x.Want)) > sc.Srv.MaxMsg {
		st.Probes["message_over_limit"]++
		if sc.Srv.LMTP {
			st.Probes["message_over_limit_lmtp"]++
		}
	}
	evs := dataEvents(h, 0)
	if len(evs) == 1 && len(evs[0].Read) < len(x.Want) {
		st.Probes["backend_left_message_unread"]++
	}
	if x.Flow {
		st.Faults["unbuffered_network_long_message_backend_stops_reading_early"]++
	}
	if x.Stall {
		st.Faults["client_stalls_past_read_deadline_inside_message"]++
	}
	if x.WriteFault {
		st.Faults["early_recipient_reply_cannot_be_written"]++
	}
	if x.Panic && len(evs) == 1 && evs[0].Panicked {
		st.Faults["backend_panics_inside_Data"]++
		if len(evs[0].Read) < len(x.Want) {
			st.Faults["backend_panics_with_message_text_unread"]++
		}
	}
	for _, s := range sc.Conns[0].Steps {
		if s.Kind == kBody && s.Glue {
			st.Probes["marker_shares_segment_with_end_marker"]++
		}
	}
	if !hasBait && !hasLook {
		return ""
	}
	dp := sc.BE.Conns[0].Data[0]
	return fmt.Sprintf("%s|%v|%d|%d|%d|%d|%v", classString(x.Stream, 80), sc.Srv.LMTP, sc.BE.Flavor, dp.ReadMode, dp.V.Kind, x.LimitKind, x.Markers)
}

func init() {
	register(&Property{
		ID: "C02", Level: "exploration",
		Rule:     "one DATA message whose text contains bait command lines and end-marker look-alikes (LF.LF, LF.CRLF, CRLF.LF, CR.CR, ...), then the real end marker, then 1-4 pipelined marker commands and QUIT; crossed with backend {reads all, k octets, nothing} x {accept, SMTPError, plain error} x size limit {none, below, at, above} x {SMTP, LMTP plain backend, LMTP per-recipient backend} (systematic product in the sweep) under drawn segmentation (markers share the end marker's segment in half the runs). Non-trivial: the body contains a bait or a look-alike; distinct by (class string of the stream, mode, read mode, verdict, limit kind, marker list). Fault strata: the client stalls inside the message past ReadTimeout; the backend panics at entry, after a partial read or at the end (only 'never executed as a command' is judged there). Flow-control stratum: a network that buffers nothing (a Write returns when the peer has read it), a message of 10-14 kB, a backend that stops reading within the first 2000 octets, every step lock-step.",
		Gen:      genC02,
		Check:    checkC02,
		Classify: classifyC02,
		Sweep: func(tier string) []map[string]int {
			reps := 4
			if tier == "thorough" {
				reps = 400
			}
			var out []map[string]int
			for r := 0; r < reps; r++ {
				for mode := 0; mode < 3; mode++ {
					for rd := 0; rd < 3; rd++ {
						for v := 0; v < 3; v++ {
							for lim := 0; lim < 4; lim++ {
								out = append(out, map[string]int{"c02mode": mode, "c02read": rd, "c02verdict": v, "c02limit": lim})
							}
						}
					}
				}
			}
			return out
		},
		Real:        []string{"smtp.Server.Serve/handleConn", "smtp.Conn command loop, handleData, handleDataLMTP", "dataReader", "lineLimitReader", "net/textproto", "bufio"},
		Stub:        []string{"net.Listener (SimListener)", "net.Conn (SimConn)", "Backend/Session/LMTPSession (SimBackend)", "clock (synctest)", "SMTP client (raw driver)"},
		Assumptions: []string{"acceptance of the message itself is not judged here (C06 does)", "go-smtp built with go1.26.8"},
		Required:    []string{"unbuffered_network_long_message_backend_stops_reading_early", "bait_command_in_body", "terminator_lookalike_in_body", "message_over_limit_lmtp", "client_stalls_past_read_deadline_inside_message", "marker_shares_segment_with_end_marker", "backend_left_message_unread", "backend_panics_with_message_text_unread", "early_recipient_reply_cannot_be_written"},
		Instr:       true,
		QuickRuns:   300000, ThoroughRuns: 6000000,
	})
}
