package sim

import (
	"crypto/tls"
	"fmt"
	"io"
	"net"
	"time"

	smtp "github.com/emersion/go-smtp"
)

// Client op kinds.
const (
	opHello = iota
	opMail
	opRcpt
	opData // Data()/LMTPData(): write Body in Parts, Close (optionally twice)
	opReset
	opNoop
	opQuit
	opAuth
	opStartTLS // only meaningful as the first op: NewClientStartTLS
	opSendMail // Client.SendMail(from, to, body)
	opClose
	opVerify
)

var opNames = []string{"hello", "mail", "rcpt", "data", "reset", "noop", "quit", "auth", "starttls", "sendmail", "close", "verify"}

type ClientOp struct {
	Kind       int
	Arg        string
	To         []string
	Body       []byte
	Parts      []int // sizes of the Write calls, cycled; nil = one Write
	Gap        Dur   // pause before the second Write (a slow producer)
	CloseTwice bool
	StaleClose bool // after the first Write, Close the writer of the previous message once more
	UseCb      bool // LMTPData with a status callback
	Sasl       *ClientSaslPlan
	Park       Dur
	Size       int64
}

func (o ClientOp) String() string {
	s := opNames[o.Kind]
	if o.Arg != "" {
		s += " " + fmt.Sprintf("%q", o.Arg)
	}
	if o.Kind == opData || o.Kind == opSendMail {
		s += fmt.Sprintf(" body=%q parts=%v twice=%v cb=%v", clip(string(o.Body), 60), clipInts(o.Parts, 8), o.CloseTwice, o.UseCb)
	}
	if len(o.To) > 0 {
		s += fmt.Sprintf(" to=%v", o.To)
	}
	return s
}

// ClientScript drives a real smtp.Client.
type ClientScript struct {
	LMTP     bool
	StartTLS bool // create the client with NewClientStartTLS
	// Via selects how the client comes to be: 0 NewClient*/NewClientStartTLS on
	// the connection, 1 DialStartTLS through the dial hook, 2 the package-level
	// SendMail through the dial hook (Mail/Rcpt/body taken from the first
	// opSendMail op).
	Via   int
	Ops   []ClientOp
	Split []int // the transport re-cuts the client's writes into these sizes, cycled
}

// OpResult is what one client op returned.
type OpResult struct {
	Kind         int
	Begin        int64
	End          int64
	Err          string
	IsSMTP       bool
	Code         int
	Enh          [3]int
	Msg          string
	Statuses     []string // LMTP callback invocations "rcpt=code" in order
	StatusDetail []string // the same with enhanced code and message
	DataErr      string   // error from Data()/LMTPData() itself
	WriteErr     string
	Close2Err    string
	Close2Set    bool
	RawBefore    int // transport octets written by the client before the second Close
	RawAfter     int
	StaleSet     bool // the previous message's writer was closed again while this message was being written
	StaleErr     string
	StaleRaw     int // transport octets that Close put on the wire
	Skipped      bool
	SaslCalls    []string
}

type ClientHistory struct {
	NewErr  string
	Results []OpResult
}

type clientDriver struct {
	sc       *ConnScript
	h        *ConnHistory
	raw      *SimConn
	class    int
	tlsCfg   *tls.Config
	implicit bool
	prevW    io.WriteCloser // the writer of the last message that was sent and closed
}

func (r *OpResult) setErr(err error) {
	if err == nil {
		return
	}
	r.Err = err.Error()
	if se, ok := err.(*smtp.SMTPError); ok {
		r.IsSMTP = true
		r.Code = se.Code
		r.Enh = [3]int(se.EnhancedCode)
		r.Msg = se.Message
	}
}

func (d *clientDriver) rawWritten() int {
	h := d.raw.wr
	h.mu.Lock()
	defer h.mu.Unlock()
	return len(h.buf)
}

func (d *clientDriver) run(offer func(net.Conn) bool) {
	cs := d.sc.Client
	ch := &ClientHistory{}
	d.h.Client = ch
	sleepClass(d.class, d.sc.DialAt)
	d.raw.faults.WriteSplit = cs.Split
	d.h.Offered = offer(nil)
	if !d.h.Offered {
		d.raw.Close()
		return
	}
	var conn net.Conn = d.raw
	if d.implicit {
		conn = tls.Client(d.raw, d.tlsCfg)
	}
	var c *smtp.Client
	switch {
	case cs.Via == 1:
		smtp.VerifDial = func(network, addr string) (net.Conn, error) { return conn, nil }
		var err error
		c, err = smtp.DialStartTLS("sim.test:25", d.tlsCfg)
		smtp.VerifDial = nil
		if err != nil {
			ch.NewErr = err.Error()
			d.finish(nil)
			return
		}
	case cs.Via == 2:
		smtp.VerifDial = func(network, addr string) (net.Conn, error) { return conn, nil }
		op := cs.Ops[0]
		err := smtp.SendMail("sim.test:25", nil, op.Arg, op.To, &partReader{b: op.Body})
		smtp.VerifDial = nil
		if err != nil {
			ch.NewErr = err.Error()
		} else {
			ch.NewErr = "<nil>"
		}
		d.finish(nil)
		return
	case cs.StartTLS:
		var err error
		c, err = smtp.NewClientStartTLS(conn, d.tlsCfg)
		if err != nil {
			ch.NewErr = err.Error()
			d.finish(nil)
			return
		}
	case cs.LMTP:
		c = smtp.NewClientLMTP(conn)
	default:
		c = smtp.NewClient(conn)
	}
	ch.Results = make([]OpResult, len(cs.Ops))
	closed := false
	for i := range cs.Ops {
		op := &cs.Ops[i]
		res := &ch.Results[i]
		res.Kind = op.Kind
		if op.Park > 0 {
			sleepClass(d.class, op.Park)
		}
		res.Begin = time.Now().UnixNano()
		switch op.Kind {
		case opHello:
			res.setErr(c.Hello(op.Arg))
		case opMail:
			var mo *smtp.MailOptions
			if op.Size > 0 {
				mo = &smtp.MailOptions{Size: op.Size}
			}
			res.setErr(c.Mail(op.Arg, mo))
		case opRcpt:
			res.setErr(c.Rcpt(op.Arg, nil))
		case opData:
			d.doData(c, cs, op, res)
		case opReset:
			res.setErr(c.Reset())
		case opNoop:
			res.setErr(c.Noop())
		case opVerify:
			res.setErr(c.Verify(op.Arg))
		case opQuit:
			err := c.Quit()
			res.setErr(err)
			if err == nil {
				closed = true
			}
		case opClose:
			res.setErr(c.Close())
			closed = true
		case opAuth:
			m := &scriptedSaslClient{plan: op.Sasl}
			res.setErr(c.Auth(m))
			res.SaslCalls = m.Calls
		case opSendMail:
			res.setErr(c.SendMail(op.Arg, op.To, &partReader{b: op.Body, parts: op.Parts}))
		}
		res.End = time.Now().UnixNano()
	}
	if !closed {
		c.Close()
	}
	d.finish(c)
}

func (d *clientDriver) finish(c *smtp.Client) {
	d.h.EndAt = time.Now().UnixNano()
	d.raw.Close()
}

func (d *clientDriver) doData(c *smtp.Client, cs *ClientScript, op *ClientOp, res *OpResult) {
	var w io.WriteCloser
	var err error
	if op.UseCb {
		w, err = c.LMTPData(func(rcpt string, status *smtp.SMTPError) {
			code := 250
			if status != nil {
				code = status.Code
			}
			res.Statuses = append(res.Statuses, fmt.Sprintf("%s=%d", rcpt, code))
			if status != nil {
				res.StatusDetail = append(res.StatusDetail, fmt.Sprintf("%s=%d %d.%d.%d %q", rcpt, status.Code, status.EnhancedCode[0], status.EnhancedCode[1], status.EnhancedCode[2], status.Message))
			} else {
				res.StatusDetail = append(res.StatusDetail, rcpt+"=ok")
			}
		})
	} else {
		w, err = c.Data()
	}
	if err != nil {
		res.DataErr = err.Error()
		res.setErr(err)
		return
	}
	off, k := 0, 0
	for off < len(op.Body) {
		sz := len(op.Body) - off
		if len(op.Parts) > 0 {
			if p := op.Parts[k%len(op.Parts)]; p > 0 && p < sz {
				sz = p
			}
		}
		if k == 1 && op.Gap > 0 {
			sleepClass(d.class, op.Gap)
		}
		k++
		if _, werr := w.Write(op.Body[off : off+sz]); werr != nil {
			res.WriteErr = werr.Error()
			break
		}
		off += sz
		if k == 1 && op.StaleClose && d.prevW != nil {
			// a late clean-up (a deferred Close, say) of the message before this one
			before := d.rawWritten()
			e := d.prevW.Close()
			res.StaleSet, res.StaleRaw = true, d.rawWritten()-before
			if e != nil {
				res.StaleErr = e.Error()
			}
		}
	}
	res.setErr(w.Close())
	d.prevW = w
	if op.CloseTwice {
		res.RawBefore = d.rawWritten()
		e2 := w.Close()
		res.RawAfter = d.rawWritten()
		res.Close2Set = true
		if e2 != nil {
			res.Close2Err = e2.Error()
		}
	}
}

type partReader struct {
	b     []byte
	parts []int
	k     int
}

func (p *partReader) Read(b []byte) (int, error) {
	if len(p.b) == 0 {
		return 0, io.EOF
	}
	sz := len(p.b)
	if len(p.parts) > 0 {
		if s := p.parts[p.k%len(p.parts)]; s > 0 && s < sz {
			sz = s
		}
	}
	p.k++
	if sz > len(b) {
		sz = len(b)
	}
	copy(b, p.b[:sz])
	p.b = p.b[sz:]
	return sz, nil
}
