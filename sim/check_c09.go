package sim

import (
	"encoding/base64"
	"fmt"
	"strings"
	"time"
)

// C09 - AUTH is unreachable on insecure connections and succeeds at most once;
// the client's Auth conducts the same exchange faithfully.

type c09Attempt struct {
	StepIdx      int      // index of the AUTH command step
	Mech         string   // mechanism named on the wire
	Resp         []string // expected arguments of sasl.Server.Next in order ("nil" or "x<hex>"), if the exchange is allowed
	Outcome      string   // "235", "fail" (mechanism fails), "badb64", "cancel", "unknown-mech", "cut"
	Epoch        int      // 0 plaintext, 1 TLS
	Allowed      bool
	AuthedBefore bool // an AUTH already succeeded in this session
	NSteps       int  // AUTH command + continuation lines sent
}

type c09X struct {
	Half          int // 0 server half (raw driver), 1 client half (real client)
	TLSMode       int // 0 plaintext, 1 STARTTLS, 2 implicit
	Insecure      bool
	AuthBE        bool
	Attempts      []c09Attempt
	EhloIdx       []int // step indexes of EHLO commands and the epoch they run in
	EhloTLS       []bool
	Markers       []int
	PreGreetAuth  int  // step index of an AUTH sent before the greeting (-1 none)
	Helo          bool // a greeting was HELO instead of EHLO
	Regreet       bool // the client greeted again between two attempts
	FailedUpgrade bool // a STARTTLS whose handshake failed precedes the attempts: still plaintext
	// client half
	CliPlan  *ClientSaslPlan
	SrvSteps []SaslStep
	AuthOp   int
	NoopOp   int
	Slow     bool // server half: ReadTimeout 10 s and a client that takes 6 s over every line of an exchange - slow, never late
	Partial  bool // a stalled response line was sent in two parts, the first before the silence
	CliFault int  // client half: the exchange is broken off: 1 Server.Close, 2 failing reply writes, 3 a reply write blocked for ever
}

func b64(b []byte) string { return base64.StdEncoding.EncodeToString(b) }

func drawOctets(t *Tape) []byte {
	switch t.Pick(2, 2, 2, 1) {
	case 0:
		return []byte{}
	case 1:
		n := 1 + t.Intn(12)
		b := make([]byte, n)
		for i := range b {
			b[i] = t.Byte()
		}
		return b
	case 2:
		return []byte(fmt.Sprintf("user%d\x00secret", t.Intn(100)))
	default:
		n := 20 + t.Intn(20)
		b := make([]byte, n)
		for i := range b {
			b[i] = byte(i * 7)
		}
		return b
	}
}

func genC09(t *Tape, tier string) *Scenario {
	sc := &Scenario{Prop: "C09"}
	sc.Srv = drawCfg(t, cfgOpts{noLMTP: true})
	sc.Srv.MaxRcpt, sc.Srv.MaxMsg, sc.Srv.MaxLine = 0, 0, 2000
	x := &c09X{PreGreetAuth: -1}
	sc.X = x
	x.Half = t.Named("c09half", 2)
	x.TLSMode = t.Named("c09tls", 3)
	x.Insecure = t.Named("c09insecure", 2) == 1
	x.AuthBE = t.Named("c09authbe", 2) == 1 || x.Half == 1
	sc.Srv.TLS = x.TLSMode
	sc.Srv.InsecureAuth = x.Insecure
	if x.AuthBE {
		sc.BE.Flavor = beAuth
	}
	// the server mechanism's script
	nsteps := 1 + t.Intn(3)
	var script []SaslStep
	for i := 0; i < nsteps-1; i++ {
		script = append(script, SaslStep{Challenge: drawOctets(t)})
	}
	failAt := -1
	if t.Chance(1, 4) {
		failAt = t.Intn(nsteps)
	}
	for i := range script {
		if i == failAt {
			script[i] = SaslStep{Fail: true}
		}
	}
	if failAt == nsteps-1 {
		script = append(script, SaslStep{Fail: true})
	} else {
		script = append(script, SaslStep{Done: true})
	}
	if failAt >= 0 {
		script = script[:failAt+1]
	}
	x.SrvSteps = script
	var cp ConnBackendPlan
	if x.AuthBE {
		cp.Auth = &AuthPlan{Mechs: []string{"SIMPLE"}, Steps: script}
	}
	sc.BE.Conns = []ConnBackendPlan{cp}

	if x.Half == 1 {
		return genC09Client(t, sc, x)
	}

	steps := []Step{{Kind: kGreetWait, Wait: 1}}
	tlsActive := x.TLSMode == tlsImplicit
	authed := false
	if t.Chance(1, 6) {
		x.PreGreetAuth = len(steps)
		steps = append(steps, Step{Kind: kAuth, Data: line("AUTH SIMPLE %s", b64([]byte("early"))), Wait: 1})
	}
	ehlo := func() {
		if t.Chance(1, 4) {
			// the old greeting: nothing is advertised, the gate on AUTH stands all the same
			x.Helo = true
			steps = append(steps, Step{Kind: kHelo, Data: line("HELO client.example"), Wait: 1})
			return
		}
		x.EhloIdx = append(x.EhloIdx, len(steps))
		x.EhloTLS = append(x.EhloTLS, tlsActive)
		steps = append(steps, Step{Kind: kHelo, Data: line("EHLO client.example"), Wait: 1})
	}
	ehlo()
	attempt := func() {
		a := c09Attempt{StepIdx: len(steps), Mech: "SIMPLE", Allowed: (tlsActive || x.Insecure) && x.AuthBE, AuthedBefore: authed}
		if tlsActive {
			a.Epoch = 1
		}
		// 0 straight, 1 bad base64 at some step, 2 cancel at some step, 3 unknown mechanism, 4 cut,
		// 5 the client stays silent after a challenge for longer than ReadTimeout and answers late,
		// 6 the answer to a challenge is longer than the line limit
		behaviour := t.Pick(5, 2, 2, 1, 1, 1, 1)
		at := t.Intn(len(script) + 1)
		if behaviour == 3 {
			a.Mech = "BOGUS"
			a.Outcome = "unknown-mech"
		}
		// initial response?
		cmd := "AUTH " + a.Mech
		var resp []string
		hasIR := t.Bool()
		k := 0 // index of the response being produced
		emit := func() (string, bool) {
			// returns the wire token and whether the exchange continues normally
			if behaviour == 1 && k == at {
				return "!!!not-base64!!!", false
			}
			if behaviour == 2 && k == at && k > 0 {
				return "*", false
			}
			o := drawOctets(t)
			resp = append(resp, hexOrNil(o))
			if len(o) == 0 {
				return "=", true
			}
			return b64(o), true
		}
		cont := true
		if hasIR {
			var tok string
			tok, cont = emit()
			cmd += " " + tok
			if !cont && a.Outcome == "" {
				a.Outcome = "badb64"
			}
		} else {
			resp = append(resp, "nil")
		}
		k++
		steps = append(steps, Step{Kind: kAuth, Data: []byte(cmd + "\r\n"), Wait: 1})
		a.NSteps = 1
		// continuation lines: one per challenge the script will send
		if a.Outcome == "" {
			for i := 0; i < len(script) && cont; i++ {
				if script[i].Done || script[i].Fail {
					break
				}
				if behaviour == 4 && i == at%maxInt(1, len(script)) {
					a.Outcome = "cut"
					break
				}
				if behaviour == 5 && i == at%maxInt(1, len(script)) {
					a.Outcome = "stall"
					sc.Srv.ReadTO = 10 * time.Second
					if t.Bool() {
						// the line is begun before the silence and finished after it
						x.Partial = true
						steps = append(steps, Step{Kind: kAuthResp, Data: []byte("c3RhbGxl"), Need: 334},
							Step{Kind: kAuthResp, Data: []byte("ZA==\r\n"), Need: 334, Wait: 1, Pre: 11 * time.Second})
						a.NSteps += 2
						break
					}
					steps = append(steps, Step{Kind: kAuthResp, Data: []byte("c3RhbGxlZA==\r\n"), Need: 334, Wait: 1, Pre: 11 * time.Second})
					a.NSteps++
					break
				}
				if behaviour == 6 && i == at%maxInt(1, len(script)) {
					a.Outcome = "longline"
					steps = append(steps, Step{Kind: kAuthResp, Data: []byte(strings.Repeat("QUJD", 600) + "\r\n"), Need: 334, Wait: 1})
					a.NSteps++
					break
				}
				var tok string
				tok, cont = emit()
				k++
				steps = append(steps, Step{Kind: kAuthResp, Data: []byte(tok + "\r\n"), Need: 334, Wait: 1})
				a.NSteps++
				if !cont {
					if tok == "*" {
						a.Outcome = "cancel"
					} else {
						a.Outcome = "badb64"
					}
				}
			}
		}
		if a.Outcome == "" {
			if failAt >= 0 {
				a.Outcome = "fail"
			} else {
				a.Outcome = "235"
			}
		}
		a.Resp = resp
		if a.Allowed && !authed && a.Outcome == "235" {
			authed = true
		}
		x.Attempts = append(x.Attempts, a)
	}
	if x.TLSMode == tlsStart && !tlsActive && t.Chance(1, 4) {
		// STARTTLS is accepted but the handshake fails (the client sends something that
		// is no ClientHello): the connection goes on in plaintext and must still be
		// treated as unprotected. The STARTTLS line is sent as a plain step so that the
		// driver does not start a handshake of its own.
		x.FailedUpgrade = true
		steps = append(steps, Step{Kind: kGarbage, Data: []byte("STARTTLS\r\n"), Wait: 1},
			Step{Kind: kGarbage, Data: []byte("this is no TLS ClientHello at all\r\n"), Wait: 1})
		ehlo()
	}
	natt := 1 + t.Intn(3)
	for i := 0; i < natt; i++ {
		attempt()
		if x.Attempts[len(x.Attempts)-1].Outcome == "cut" {
			break
		}
		x.Markers = append(x.Markers, len(steps))
		steps = append(steps, Step{Kind: kMarker, Data: []byte("NOOP\r\n"), Wait: 1})
		if t.Chance(1, 3) {
			// the client greets again: that ends a transaction, not the session - whoever
			// has authenticated stays authenticated
			x.Regreet = true
			ehlo()
		}
		if x.TLSMode == tlsStart && !tlsActive && !x.FailedUpgrade && t.Chance(1, 2) {
			steps = append(steps, Step{Kind: kStartTLS, Data: []byte("STARTTLS\r\n"), Wait: 1})
			tlsActive = true
			authed = false
			ehlo()
		}
	}
	cut := len(x.Attempts) > 0 && x.Attempts[len(x.Attempts)-1].Outcome == "cut"
	if !cut {
		steps = append(steps, Step{Kind: kQuit, Data: []byte("QUIT\r\n"), Wait: 1})
	}
	if t.Chance(1, 6) {
		// a slow client: every line of an exchange comes 6 s after the reply before it, with
		// ReadTimeout at 10 s. The timeout is per line, so none of them is late.
		x.Slow = true
		sc.Srv.ReadTO = 10 * time.Second
		for i := range steps {
			if (steps[i].Kind == kAuth || steps[i].Kind == kAuthResp) && steps[i].Pre == 0 && len(steps[i].Data) > 0 && steps[i].Data[len(steps[i].Data)-1] == '\n' {
				steps[i].Pre = 6 * time.Second
			}
		}
	}
	cs := ConnScript{Lat: drawLat(t), Steps: steps}
	cs.defaults()
	sc.Conns = []ConnScript{cs}
	sc.Strata = []string{fmt.Sprintf("server/tls%d/insecure%v/authbe%v", x.TLSMode, x.Insecure, x.AuthBE)}
	return sc
}

func genC09Client(t *Tape, sc *Scenario, x *c09X) *Scenario {
	// the real client authenticates against the real server
	if x.TLSMode == tlsNone {
		sc.Srv.InsecureAuth = true
		x.Insecure = true
	}
	plan := &ClientSaslPlan{Mech: "SIMPLE"}
	if t.Bool() {
		plan.IR = drawOctets(t)
	}
	n := len(x.SrvSteps)
	errAt := -1
	if t.Chance(1, 4) {
		errAt = t.Intn(n + 1)
	}
	for i := 0; i < n; i++ {
		if i == errAt {
			plan.Steps = append(plan.Steps, ClientSaslStep{Err: true})
			break
		}
		plan.Steps = append(plan.Steps, ClientSaslStep{Resp: drawOctets(t)})
	}
	x.CliPlan = plan
	cl := &ClientScript{StartTLS: x.TLSMode == tlsStart}
	x.AuthOp = len(cl.Ops)
	cl.Ops = append(cl.Ops, ClientOp{Kind: opAuth, Sasl: plan})
	x.NoopOp = len(cl.Ops)
	cl.Ops = append(cl.Ops, ClientOp{Kind: opNoop}, ClientOp{Kind: opQuit})
	if t.Bool() {
		cl.Split = []int{1 + t.Intn(30)}
	}
	cs := ConnScript{Lat: drawLat(t), LatBack: drawLat(t), Client: cl}
	cs.defaults()
	if t.Bool() {
		cs.SrvFaults.WriteSplit = []int{1 + t.Intn(20), 1 + t.Intn(5)} // replies arrive in pieces
	}
	if t.Chance(1, 8) {
		// fault stratum: the exchange is broken off somewhere; Auth may return anything but
		// a success the server's mechanism did not reach
		x.CliFault = 1 + t.Intn(4)
		switch x.CliFault {
		case 1:
			sc.Admin = []AdminStep{{At: Dur(t.Intn(60)) * 100 * time.Microsecond, Kind: aClose}}
		case 2:
			cs.SrvFaults.FailWriteAt = 1 + t.Intn(8)
		case 4:
			cs.CliFailWriteAt = 1 + t.Intn(8) // the client's own writes start to fail
		default:
			cs.SrvFaults.BlockWriteAt = 1 + t.Intn(8)
			sc.Srv.WriteTO = 0
		}
	}
	sc.Conns = []ConnScript{cs}
	sc.Strata = []string{fmt.Sprintf("client/tls%d", x.TLSMode)}
	return sc
}

// appData returns the application-level reply stream split by epoch.
func epochReplies(ch *ConnHistory) (plain, tls []Reply) {
	if ch.TLSRecv >= 0 {
		plain, _ = parseReplies(ch.Recv[:ch.TLSRecv])
		tls, _ = parseReplies(ch.Recv[ch.TLSRecv:])
		return
	}
	plain, _ = parseReplies(ch.Recv)
	return
}

func checkC09(sc *Scenario, h *History) []Violation {
	x := sc.X.(*c09X)
	if x.Half == 1 {
		return checkC09Client(sc, h, x)
	}
	var out []Violation
	ch := h.Conns[0]
	wit := fmt.Sprintf("tls=%d insecure=%v authbe=%v attempts=%d script=%d", x.TLSMode, x.Insecure, x.AuthBE, len(x.Attempts), len(x.SrvSteps))
	v := func(rule, format string, a ...interface{}) {
		if len(out) < 4 {
			out = append(out, Violation{Rule: rule, Detail: fmt.Sprintf(format, a...), Witness: wit})
		}
	}
	if ch.HandshakeErr != "" {
		return out // a failed handshake: only C08's rules apply
	}
	steps := sc.Conns[0].Steps
	// Lock-step driver: the replies awaited after step i are known by count.
	// Rebuild the reply list per step from StepCode and the full reply stream.
	var all []Reply
	if x.TLSMode == tlsImplicit {
		all, _ = parseReplies(ch.Recv)
	} else {
		p, tl := epochReplies(ch)
		all = append(p, tl...)
	}
	// one reply per sent step that waits (the greeting included); skipped steps send nothing
	replyOf := map[int]*Reply{}
	ri := 0
	for i, s := range steps {
		if ch.StepSkipped[i] || (s.Kind != kGreetWait && ch.StepOff[i] < 0) {
			continue
		}
		if s.Wait == 0 {
			continue
		}
		if ri < len(all) {
			replyOf[i] = &all[ri]
			ri++
		}
	}
	// advertisement
	for k, idx := range x.EhloIdx {
		r := replyOf[idx]
		if r == nil {
			continue
		}
		adv := false
		for _, l := range r.Lines {
			if strings.HasPrefix(strings.ToUpper(l), "AUTH") {
				adv = true
			}
		}
		want := (x.EhloTLS[k] || x.Insecure) && x.AuthBE
		if adv != want {
			v("C09.advertised", "EHLO (tls=%v, AllowInsecureAuth=%v, auth backend=%v) advertised AUTH=%v", x.EhloTLS[k], x.Insecure, x.AuthBE, adv)
		}
	}
	// backend calls, in order
	var nexts []*BEvent
	var auths []*BEvent
	for _, e := range h.Events {
		if e.Kind == "SaslNext" {
			nexts = append(nexts, e)
		}
		if e.Kind == "Auth" {
			auths = append(auths, e)
		}
	}
	if x.PreGreetAuth >= 0 {
		if r := replyOf[x.PreGreetAuth]; r != nil && r.Code/100 != 5 {
			v("C09.before-greeting", "AUTH before any greeting was answered %s", r)
		}
	}
	ni := 0
	authed := false
	epoch := 0
	for ai, a := range x.Attempts {
		if a.Epoch != epoch {
			epoch = a.Epoch
			authed = false // STARTTLS erases the authentication state
		}
		r := replyOf[a.StepIdx]
		if r == nil {
			continue
		}
		// the last reply of the exchange
		last := r
		for k := 1; k < a.NSteps; k++ {
			if rr := replyOf[a.StepIdx+k]; rr != nil {
				last = rr
			}
		}
		switch {
		case authed:
			if r.Code != 503 {
				v("C09.twice", "attempt %d: AUTH after a successful AUTH was answered %s, expected 503", ai, r)
			}
		case !a.Allowed && (a.Epoch == 1 || x.TLSMode == tlsImplicit || x.Insecure):
			// the connection would permit AUTH but the backend has no AUTH support: refused, whatever the code
			if r.Code/100 == 2 || r.Code == 334 {
				v("C09.no-auth-backend", "attempt %d: AUTH with a backend that has no AUTH support was answered %s", ai, r)
			}
		case !a.Allowed:
			if r.Code/100 != 5 {
				v("C09.insecure-accepted", "attempt %d: AUTH on a connection where it is not permitted (tls=%v insecure=%v backend=%v) was answered %s", ai, a.Epoch == 1, x.Insecure, x.AuthBE, r)
			}
		default:
			// the exchange ran: the mechanism must have seen exactly the decoded octets
			if a.Outcome != "unknown-mech" {
				for k, want := range a.Resp {
					if ni >= len(nexts) {
						v("C09.octets", "attempt %d: the mechanism was handed %d responses, expected at least %d (%v)", ai, len(nexts), ni+1, a.Resp)
						break
					}
					got := nexts[ni].Arg
					if got != want && !(want == "nil" && got == "nil") {
						v("C09.octets", "attempt %d response %d: the mechanism received %s, the client sent %s", ai, k, got, want)
					}
					ni++
					if nexts[ni-1].Opts == "fail" || nexts[ni-1].Opts == "done" {
						break
					}
				}
			}
			switch a.Outcome {
			case "235":
				if last.Code != 235 {
					v("C09.success", "attempt %d: a complete valid exchange ended with %s, expected 235", ai, last)
				} else {
					authed = true
				}
			case "fail", "badb64", "cancel", "unknown-mech", "stall", "longline":
				if last.Code/100 == 2 || last.Code == 334 {
					v("C09.failure", "attempt %d (%s): the exchange ended with %s", ai, a.Outcome, last)
				}
			}
		}
		// after the attempt the connection is in command mode: the marker is executed
		if ai < len(x.Markers) && a.Outcome == "stall" && last.Code == 421 {
			// 421 is "closing transmission channel" (RFC 5321 4.2.3): a server that says so to a
			// silent client has given up on the connection and executes nothing more on it
			if m := replyOf[x.Markers[ai]]; m != nil {
				v("C09.command-mode", "attempt %d: the silence inside the exchange was answered %s, yet the NOOP after it was executed (%s)", ai, last, m)
			}
		} else if ai < len(x.Markers) && a.Outcome != "longline" {
			if m := replyOf[x.Markers[ai]]; m != nil && m.Code != 250 {
				v("C09.command-mode", "attempt %d (%s): the NOOP after it was answered %s", ai, a.Outcome, m)
			}
		}
	}
	// a response line that was cut by the read timeout is not a response
	for _, e := range nexts {
		if e.Arg == hexOrNil([]byte("stalle")) {
			v("C09.partial-line", "the mechanism received %s, the beginning of a response line the client had not finished when the read timeout struck", e.Arg)
		}
	}
	// nothing reaches the mechanism on a connection where AUTH is not permitted, nor after success
	allowedCalls := 0
	for _, a := range x.Attempts {
		if a.Allowed && !a.AuthedBefore {
			allowedCalls++
		}
	}
	if len(auths) > allowedCalls {
		v("C09.backend-called", "Session.Auth was called %d times, only %d AUTH commands were permitted to reach it", len(auths), allowedCalls)
	}
	if allowedCalls == 0 && len(nexts) > 0 {
		v("C09.backend-called", "the SASL mechanism received %d responses although no AUTH was permitted", len(nexts))
	}
	return out
}

func checkC09Client(sc *Scenario, h *History, x *c09X) []Violation {
	var out []Violation
	ch := h.Conns[0]
	wit := fmt.Sprintf("client tls=%d ir=%s steps=%d script=%d", x.TLSMode, hexOrNil(x.CliPlan.IR), len(x.CliPlan.Steps), len(x.SrvSteps))
	v := func(rule, format string, a ...interface{}) {
		if len(out) < 4 {
			out = append(out, Violation{Rule: rule, Detail: fmt.Sprintf(format, a...), Witness: wit})
		}
	}
	if x.CliFault > 0 {
		// Only this is judged: Auth reports success only if the server's mechanism finished.
		if ch.Client == nil || len(ch.Client.Results) <= x.AuthOp {
			return out
		}
		res := ch.Client.Results[x.AuthOp]
		done := false
		for _, e := range h.Events {
			if e.Kind == "SaslNext" && e.Opts == "done" {
				done = true
			}
		}
		if res.Begin != 0 && !res.Skipped && res.Err == "" && !done {
			v("C09.client-false-success", "the exchange was broken off (fault %d) before the server's mechanism finished, but Auth returned nil", x.CliFault)
		}
		if res.Begin != 0 && res.End-res.Begin > int64(18*time.Minute) {
			v("C09.client-hang", "Auth took %v of fake time over a broken exchange", time.Duration(res.End-res.Begin))
		}
		return out
	}
	if ch.Client == nil || ch.Client.NewErr != "" || len(ch.Client.Results) <= x.NoopOp {
		v("C09.client-setup", "client could not be set up: %+v", ch.Client)
		return out
	}
	res := ch.Client.Results[x.AuthOp]
	// what the client mechanism produced, in order
	var sent []string
	sent = append(sent, hexOrNil(x.CliPlan.IR))
	clientErr := false
	var nexts []*BEvent
	for _, e := range h.Events {
		if e.Kind == "SaslNext" {
			nexts = append(nexts, e)
		}
	}
	// challenges the server produced, in order
	var challenges []string
	for _, e := range nexts {
		if strings.HasPrefix(e.Opts, "challenge ") {
			challenges = append(challenges, strings.TrimPrefix(e.Opts, "challenge "))
		}
	}
	// replay the exchange on the reference: the client answers one response per challenge
	for i := range challenges {
		if i >= len(x.CliPlan.Steps) {
			sent = append(sent, "x")
			continue
		}
		if x.CliPlan.Steps[i].Err {
			clientErr = true
			break
		}
		sent = append(sent, hexOrNil(x.CliPlan.Steps[i].Resp))
	}
	for i, e := range nexts {
		if i >= len(sent) {
			v("C09.client-octets", "the server mechanism received %d responses, the client mechanism produced %d", len(nexts), len(sent))
			break
		}
		got, want := e.Arg, sent[i]
		if got != want && !(emptyHex(got) && emptyHex(want) && i > 0) {
			v("C09.client-octets", "response %d: the client mechanism produced %s, the server mechanism received %s", i, want, got)
		}
	}
	// challenges seen by the client mechanism
	var seen []string
	for _, c := range res.SaslCalls {
		if strings.HasPrefix(c, "next ") {
			seen = append(seen, strings.TrimPrefix(c, "next "))
		}
	}
	for i, c := range seen {
		if i >= len(challenges) {
			v("C09.client-challenges", "the client mechanism was handed %d challenges, the server sent %d", len(seen), len(challenges))
			break
		}
		if c != challenges[i] && !(emptyHex(c) && emptyHex(challenges[i])) {
			v("C09.client-challenges", "challenge %d: the server mechanism sent %s, the client mechanism received %s", i, challenges[i], c)
		}
	}
	// result: the server's final reply follows from what its mechanism decided
	final := 0
	if len(nexts) > 0 {
		switch nexts[len(nexts)-1].Opts {
		case "done":
			final = 235
		case "fail":
			final = 535
		}
	}
	switch {
	case clientErr:
		if res.Err == "" {
			v("C09.client-result", "the client mechanism failed but Auth returned nil")
		}
		if x.TLSMode == tlsNone && !strings.Contains(string(ch.C2S.Buf), "\r\n*\r\n") {
			v("C09.client-cancel", "the client mechanism failed but no '*' line was sent")
		}
	case final == 235:
		if res.Err != "" {
			v("C09.client-result", "the server answered 235 but Auth returned %q", res.Err)
		}
	case final == 535:
		if !res.IsSMTP || res.Code != 535 {
			v("C09.client-result", "the server ended the exchange with 535 but Auth returned %q (smtp=%v code=%d)", res.Err, res.IsSMTP, res.Code)
		}
	}
	if n := ch.Client.Results[x.NoopOp]; n.Err != "" {
		v("C09.client-usable", "NOOP after Auth failed: %s", n.Err)
	}
	return out
}

func emptyHex(s string) bool { return s == "nil" || s == "x" }

func classifyC09(sc *Scenario, h *History, st *Stats) string {
	x := sc.X.(*c09X)
	if x.Half == 1 {
		st.Probes["client_half"]++
		if x.CliFault > 0 {
			st.Faults["client_auth_exchange_broken_off"]++
		}
		if x.CliPlan.IR != nil && len(x.CliPlan.IR) == 0 {
			st.Probes["empty_initial_response"]++
		}
		for _, s := range x.CliPlan.Steps {
			if s.Err {
				st.Probes["client_mechanism_error"]++
			}
		}
		return fmt.Sprintf("client|%d|%s|%d|%d|%v", x.TLSMode, hexOrNil(x.CliPlan.IR), len(x.CliPlan.Steps), len(x.SrvSteps), x.SrvSteps[len(x.SrvSteps)-1].Fail)
	}
	var o []string
	for _, a := range x.Attempts {
		o = append(o, fmt.Sprintf("%s/%d/%v", a.Outcome, a.Epoch, a.Allowed))
		st.Probes["attempt_"+a.Outcome]++
		if x.Helo {
			st.Probes["attempt_after_HELO"]++
		}
		if (a.Outcome == "stall" || a.Outcome == "longline") && a.NSteps > 1 && h.Conns[0].StepOff[a.StepIdx+a.NSteps-1] >= 0 {
			st.Faults["client_answers_a_challenge_"+map[string]string{"stall": "later_than_ReadTimeout", "longline": "with_an_over-long_line"}[a.Outcome]]++
		}
		if x.Slow && a.Outcome == "235" && a.NSteps > 1 && a.Allowed && !a.AuthedBefore {
			st.Probes["slow_client_completes_a_multi-line_exchange"]++
		}
		if x.Partial && a.Outcome == "stall" && h.Conns[0].StepOff[a.StepIdx+a.NSteps-1] >= 0 {
			st.Faults["read_timeout_in_the_middle_of_a_response_line"]++
		}
		if !a.Allowed {
			st.Probes["attempt_not_permitted"]++
		}
		if a.AuthedBefore {
			st.Probes["attempt_after_success"]++
			if x.Regreet {
				st.Probes["attempt_after_success_and_a_new_greeting"]++
			}
		}
	}
	if h.Conns[0].HandshakeDone {
		st.Probes["tls_handshake_completed"]++
	}
	if x.FailedUpgrade {
		st.Probes["auth_after_failed_starttls_handshake"]++
	}
	return fmt.Sprintf("server|%d|%v|%v|%v|%d|%d", x.TLSMode, x.Insecure, x.AuthBE, o, len(x.SrvSteps), x.PreGreetAuth)
}

func init() {
	register(&Property{
		ID: "C09", Level: "exploration",
		Rule:     "server half: raw driver (with crypto/tls for STARTTLS and implicit TLS) against the real server over the full product TLS {plaintext, after STARTTLS, implicit} x AllowInsecureAuth x backend {AuthSession, plain} (systematic), a scripted 1-3 step sasl.Server with drawn challenges (empty, binary) that succeeds or fails at a drawn step, and 1-3 AUTH attempts each behaving {straight, bad base64 at step j, '*' at step j, unknown mechanism, cut}, with or without initial response ('=' for empty), AUTH before the greeting, a NOOP marker after every attempt and STARTTLS between attempts; client half: real Client.Auth with a scripted sasl.Client (nil/empty/binary initial response, per-step responses, error at step j) against the same real server, over plaintext, STARTTLS and implicit TLS. Every case is non-trivial; distinct by (half, TLS mode, flags, attempt outcomes, script). Server half also: the client answers a 334 later than ReadTimeout, or with a line over the limit. Client half also: replies re-cut by the network; the exchange broken off by Server.Close or failing/blocked reply writes (Auth reports no success the server's mechanism did not reach). A slow client (ReadTimeout 10 s, 6 s before every line of an exchange) completes its exchanges like a fast one; a response line begun before a silence longer than ReadTimeout and finished after it never reaches the mechanism, not even its beginning.",
		Gen:      genC09,
		Check:    checkC09,
		Classify: classifyC09,
		Sweep: func(tier string) []map[string]int {
			reps := 120
			if tier == "thorough" {
				reps = 8000
			}
			var out []map[string]int
			for r := 0; r < reps; r++ {
				for tl := 0; tl < 3; tl++ {
					for ins := 0; ins < 2; ins++ {
						for be := 0; be < 2; be++ {
							out = append(out, map[string]int{"c09half": 0, "c09tls": tl, "c09insecure": ins, "c09authbe": be})
						}
					}
					out = append(out, map[string]int{"c09half": 1, "c09tls": tl})
				}
			}
			return out
		},
		Real:        []string{"smtp.Server.Serve/handleConn", "smtp.Conn handleAuth, handleGreet (capabilities), handleStartTLS", "smtp.Client.Auth, NewClientStartTLS", "crypto/tls (client and server)", "net/textproto"},
		Stub:        []string{"net.Listener (SimListener)", "net.Conn (SimConn)", "Backend/AuthSession (SimBackend)", "sasl.Server and sasl.Client (scripted, recording)", "clock (synctest)", "SMTP client of the server half (raw driver)"},
		Assumptions: []string{"a nil (as opposed to empty) response from a client mechanism's Next is an unspecified contract and is not generated", "the reply code of a failed/malformed/cancelled exchange is not judged, only that it is not positive and the connection is back in command mode"},
		Required:    []string{"attempt_235", "attempt_badb64", "attempt_cancel", "attempt_fail", "attempt_unknown-mech", "attempt_not_permitted", "attempt_after_success", "auth_after_failed_starttls_handshake", "client_half", "client_mechanism_error", "empty_initial_response", "tls_handshake_completed", "client_answers_a_challenge_later_than_ReadTimeout", "client_answers_a_challenge_with_an_over-long_line", "client_auth_exchange_broken_off", "attempt_after_HELO", "attempt_after_success_and_a_new_greeting", "slow_client_completes_a_multi-line_exchange", "read_timeout_in_the_middle_of_a_response_line"},
		Instr:       true,
		QuickRuns:   40000, ThoroughRuns: 1000000,
	})
}
