package sim

import (
	"fmt"
	"strings"
)

// ServerCfg is the drawn configuration of the real smtp.Server.
type ServerCfg struct {
	LMTP         bool
	TLS          int // 0 none, 1 STARTTLS available, 2 implicit TLS
	MaxLine      int
	MaxMsg       int64
	MaxRcpt      int
	ReadTO       Dur
	WriteTO      Dur
	Debug        bool
	UTF8         bool
	ReqTLS       bool
	BinaryMIME   bool
	DSN          bool
	RRVS         bool
	InsecureAuth bool
}

const (
	tlsNone = iota
	tlsStart
	tlsImplicit
)

func (c ServerCfg) String() string {
	mode := "smtp"
	if c.LMTP {
		mode = "lmtp"
	}
	return fmt.Sprintf("%s tls=%d maxline=%d maxmsg=%d maxrcpt=%d rto=%v wto=%v debug=%v ext=%s insecureauth=%v",
		mode, c.TLS, c.MaxLine, c.MaxMsg, c.MaxRcpt, c.ReadTO, c.WriteTO, c.Debug, c.extString(), c.InsecureAuth)
}

func (c ServerCfg) extString() string {
	var s []string
	if c.UTF8 {
		s = append(s, "utf8")
	}
	if c.ReqTLS {
		s = append(s, "reqtls")
	}
	if c.BinaryMIME {
		s = append(s, "binmime")
	}
	if c.DSN {
		s = append(s, "dsn")
	}
	if c.RRVS {
		s = append(s, "rrvs")
	}
	return strings.Join(s, "+")
}

// Step kinds of the raw driver. The kind tells the driver how to wait in
// lock-step mode and tells oracles what the generator meant.
const (
	kGreetWait = iota // wait for the 220 banner (no data)
	kHelo
	kMail
	kRcpt
	kData
	kBody // message text after DATA including the end marker
	kBdat // BDAT command line (payload is a separate kPayload step)
	kPayload
	kRset
	kNoop
	kVrfy
	kQuit
	kAuth
	kAuthResp
	kStartTLS
	kInject  // plaintext injected behind STARTTLS
	kGarbage // junk command line(s)
	kMarker  // a command whose execution is tracked by its unique tag
	kStall   // send nothing for Pre
)

var kindNames = []string{"greetwait", "helo", "mail", "rcpt", "data", "body", "bdat", "payload", "rset", "noop", "vrfy", "quit", "auth", "authresp", "starttls", "inject", "garbage", "marker", "stall"}

// Step is one unit of a raw driver script.
type Step struct {
	Kind int
	Data []byte
	Segs []int // sizes of the network segments this step is cut into, cycled over the data; nil = one segment
	Gaps []Dur // park before segment i (cycled); nil = none
	Glue bool  // no segment boundary between the end of this step and the next
	Wait int   // replies to await afterwards: 0 none, n>0 exactly n, -1 the final reply(ies) of a message
	Need int   // send only if the last awaited reply had this code (0 = always)
	Pre  Dur   // park before the step
	Tag  string
	Last bool // kBdat: LAST chunk
}

func (s Step) String() string {
	d := string(s.Data)
	if len(d) > 60 {
		d = d[:60] + fmt.Sprintf("...(%d)", len(s.Data))
	}
	x := fmt.Sprintf("%s %q", kindNames[s.Kind], d)
	if len(s.Segs) > 0 {
		x += fmt.Sprintf(" segs=%v", clipInts(s.Segs, 8))
	}
	if s.Glue {
		x += " glue"
	}
	if s.Wait != 0 {
		x += fmt.Sprintf(" wait=%d", s.Wait)
	}
	if s.Need != 0 {
		x += fmt.Sprintf(" need=%d", s.Need)
	}
	if s.Pre != 0 {
		x += fmt.Sprintf(" pre=%v", s.Pre)
	}
	return x
}

func clipInts(a []int, n int) []int {
	if len(a) > n {
		return a[:n]
	}
	return a
}

// Cut kinds.
const (
	cutNone = iota
	cutFIN
	cutRST
	cutHalf  // half-close: stop sending, keep reading
	cutStall // stop sending, keep the connection open until the server gives up
)

// ConnScript drives one connection.
type ConnScript struct {
	DialAt         Dur
	Steps          []Step
	Lat            []Dur // client->server latency per segment, cycled
	LatBack        []Dur // server->client
	SrvCaps        []int // short-read caps at the server endpoint, cycled
	SrvEOFWithData bool  // the server endpoint reads the last octets together with io.EOF when the FIN is already there
	SrvFaults      ConnFaults
	CliFailWriteAt int // the client endpoint's n-th Write fails, and every later one (0 = never): the peer's network breaks under a real client
	Cut            int // cut the client's stream after this many octets (<0: no cut)
	CutKind        int
	AwaitTO        Dur // bound on every wait for replies (fake time)
	IdleEnd        Dur // at the end of the script, read until EOF or this long without data
	NoClose        bool
	Silent         bool          // the client connects and sends nothing at all (no TLS ClientHello either); it reads until the server ends the connection
	Client         *ClientScript // non-nil: a real smtp.Client instead of the raw driver
	Stub           *StubScript   // non-nil: the peer is the scripted stub server, not the real smtp.Server
	AcceptErrs     int           // temporary Accept errors injected before this connection is offered
}

// Admin actions.
const (
	aClose = iota
	aShutdown
)

type AdminStep struct {
	At      Dur
	Kind    int
	Timeout Dur // Shutdown context deadline (0 = none)
}

// AutoYieldCfg says at which of the yield points that verifctl inserts into a scratch copy
// of the library (instr tier) a run parks: at the one named Site, or at every site whose
// hash, mixed with Salt, is 0 modulo Mod.
type AutoYieldCfg struct {
	Site string
	Salt uint64
	Mod  int
	Park Dur
	// Budget: once the parks of a run add up to this much fake time, the run parks no more.
	Budget Dur
}

// Scenario is everything that defines one run. It is drawn completely before
// the bubble is entered.
type Scenario struct {
	Prop   string
	Srv    ServerCfg
	BE     BackendPlan
	Conns  []ConnScript
	Admin  []AdminStep
	Settle Dur
	// AcceptTail: Accept results scripted after all connections: n>0 temporary
	// errors, then (if AcceptPermanent) a permanent one.
	AcceptTailTemp   int
	AcceptPermanent  bool
	ListenerCloseErr bool
	NoWaitServe      bool          // start the actors without waiting for Serve to register its listener
	YieldPark        Dur           // park this long at the VerifYield points of Server.Close/Shutdown (0 = hook off)
	YieldPoints      []string      // the VerifYield points that park in this run (nil with YieldPark > 0: the two server points)
	ServeDelay       Dur           // Serve is called this long after the start (with NoWaitServe: a Close may come first)
	LogPark          Dur           // Server.ErrorLog is slow: every Printf parks this long (0 = instant)
	AutoYield        *AutoYieldCfg // instr tier: parks at yield points inserted by program (nil = none)
	X                interface{}   // property-specific expectation data
	Strata           []string      // labels for evidence (which strata this run belongs to)
}

func (sc *Scenario) Describe() []string {
	var out []string
	out = append(out, "server: "+sc.Srv.String())
	out = append(out, fmt.Sprintf("backend: flavor=%d", sc.BE.Flavor))
	for i, cp := range sc.BE.Conns {
		for j, d := range cp.Data {
			out = append(out, fmt.Sprintf("  conn%d data#%d: reads=%v mode=%d k=%d parkBefore=%v parkAfter=%v parkReads=%v verdict=%s statuses=%d",
				i, j, clipInts(d.ReadSizes, 8), d.ReadMode, d.ReadK, d.ParkBefore, d.ParkAfter, d.ParkReads, d.V, len(d.Statuses)))
			for _, st := range d.Statuses {
				out = append(out, fmt.Sprintf("    status %s=%s when=%d park=%v", st.Addr, st.V, st.When, st.Park))
			}
		}
		for j, v := range cp.NewSession {
			if v.Kind != vOK {
				out = append(out, fmt.Sprintf("  conn%d newsession#%d: %s", i, j, v))
			}
		}
	}
	for i, c := range sc.Conns {
		out = append(out, fmt.Sprintf("conn%d: dial=%v cut=%d/%d lat=%v caps=%v failwrite=%d blockwrite=%d/%v accepterrs=%d silent=%v", i, c.DialAt, c.Cut, c.CutKind, c.Lat, clipInts(c.SrvCaps, 8), c.SrvFaults.FailWriteAt, c.SrvFaults.BlockWriteAt, c.SrvFaults.BlockFor, c.AcceptErrs, c.Silent))
		for j, s := range c.Steps {
			out = append(out, fmt.Sprintf("  step%d: %s", j, s))
		}
		if c.Client != nil {
			for j, op := range c.Client.Ops {
				out = append(out, fmt.Sprintf("  op%d: %s", j, op))
			}
		}
	}
	if a := sc.AutoYield; a != nil {
		out = append(out, fmt.Sprintf("inserted yield points: site=%q salt=%d mod=%d park=%v budget=%v", a.Site, a.Salt, a.Mod, a.Park, a.Budget))
	}
	for _, a := range sc.Admin {
		out = append(out, fmt.Sprintf("admin: at=%v kind=%d timeout=%v", a.At, a.Kind, a.Timeout))
	}
	return out
}
