package sim

import (
	"bytes"
	"fmt"
	"strings"
	"time"
)

// C07 - an incomplete message is never presented to the backend as complete.
// Fault enumeration: every cut offset of each conversation of a seeded corpus.

type convTxn struct {
	ViaBdat   bool
	Msg       []byte // what the backend must see if the message completes
	Start     int    // client stream offset at which the message octets start being relevant (DATA line / first BDAT line)
	EmptyLast bool   // the transfer ends with BDAT 0 LAST
	End       int    // client stream offset one past the last octet of the end marker / LAST payload; -1 if the script never completes it
	FinalIdx  int    // index (0-based, greeting = 0) of the first final reply; -1 if none
	NFinal    int
	Abandon   string // "" or how the client abandons the transfer
	Reject    bool
	Partial   bool // the backend stops reading early and accepts
}

type convX struct {
	Txns     []convTxn
	Total    int // client octets of the whole script
	NReply   int // replies a complete, fault-free run produces
	Cut      int // octets delivered before the cut, -1 = none
	CutKind  int
	SrvClose bool // Server.Close strikes at a forced instant
}

var partialTerms = []string{"\r\n.", "\r\n.\r", "\r\n..\r\n", "\r\n.x", "\n.\n", "\r\n", ".", "\r"}

func convBody(t *Tape) []byte {
	var b []byte
	n := 1 + t.Intn(4)
	for i := 0; i < n; i++ {
		switch t.Pick(3, 2) {
		case 0:
			b = append(b, line("line %d of the message", i)...)
		default:
			b = append(b, partialTerms[t.Intn(len(partialTerms))]...)
		}
	}
	return b
}

// genConversation builds a healthy conversation of 1-3 transactions (DATA and
// BDAT, SMTP or LMTP) with static reply positions, and applies the forced or
// drawn cut. It is the corpus generator of C07 and C08.
func genConversation(t *Tape, sc *Scenario, allowAbandon bool) *convX {
	sc.Srv = drawCfg(t, cfgOpts{allowTLS: true})
	sc.Srv.MaxRcpt = 0
	sc.Srv.MaxMsg = 0
	if sc.Srv.LMTP && t.Bool() {
		sc.BE.Flavor = beLMTP
	}
	x := &convX{Cut: -1}
	pipelined := t.Bool()
	w := func() int {
		if pipelined {
			return 0
		}
		return 1
	}
	steps := []Step{{Kind: kGreetWait, Wait: 1}, {Kind: kHelo, Data: heloLine(sc.Srv), Wait: w()}}
	off := len(steps[1].Data)
	nrep := 2
	var cp ConnBackendPlan
	add := func(s Step) {
		steps = append(steps, s)
		off += len(s.Data)
	}
	ntx := 1 + t.Pick(3, 2, 1)
	for m := 0; m < ntx; m++ {
		tx := convTxn{ViaBdat: t.Bool(), End: -1, FinalIdx: -1}
		nr := 1 + t.Intn(2)
		tx.NFinal = 1
		if sc.Srv.LMTP {
			tx.NFinal = nr
		}
		add(Step{Kind: kMail, Data: line("MAIL FROM:<ok-s%d@a.example>", m), Wait: w()})
		nrep++
		for r := 0; r < nr; r++ {
			add(Step{Kind: kRcpt, Data: line("RCPT TO:<ok-r%d-%d@b.example>", m, r), Wait: w()})
			nrep++
		}
		dp := DataPlan{ReadSizes: drawReadSizes(t), ParkReads: drawParks(t)}
		if false && sc.BE.Flavor != beLMTP && t.Chance(1, 5) {
			// Disabled: Session.Data documents "r must be consumed before Data
			// returns", so a backend that accepts without reading to the end is
			// outside the contract and what the server then answers is not judged.
			// a backend that accepts without reading to the end (it never sees the reader fail)
			dp.ReadMode = readK + t.Intn(2)
			dp.ReadK = t.Intn(12)
			tx.Partial = true
		} else if t.Chance(1, 5) {
			tx.Reject = true
			dp.V = Verdict{Kind: vSMTP, Code: 554, Enh: [3]int{5, 6, 0}, Msg: fmt.Sprintf("message %d rejected", m)}
		}
		cp.Data = append(cp.Data, dp)
		tx.Start = off
		if !tx.ViaBdat {
			body := convBody(t)
			stream := append(append([]byte{}, body...), "\r\n.\r\n"...)
			msg, consumed, _ := unstuff(stream)
			stream = stream[:consumed]
			tx.Msg = msg
			add(Step{Kind: kData, Data: []byte("DATA\r\n"), Wait: w()})
			nrep++
			add(Step{Kind: kBody, Data: stream, Need: 354 * w(), Segs: drawSegs(t, len(stream), nil), Wait: -1 * w()})
			tx.End = off
			tx.FinalIdx = nrep
			nrep += tx.NFinal
		} else {
			nch := 1 + t.Intn(3)
			abandon := allowAbandon && t.Chance(1, 3)
			if abandon {
				tx.Abandon = []string{"RSET", "QUIT", "EHLO", "none", "MAIL"}[t.Intn(5)]
			}
			for c := 0; c < nch; c++ {
				last := c == nch-1 && !abandon
				payload := convBody(t)
				if last && c > 0 && t.Chance(1, 3) {
					// the transfer is closed by an empty LAST chunk: its command line is the whole
					// of it, and a line that has not arrived in full has not arrived
					payload = nil
					tx.EmptyLast = true
				}
				cmd := fmt.Sprintf("BDAT %d", len(payload))
				if last {
					cmd += " LAST"
				}
				add(Step{Kind: kBdat, Data: []byte(cmd + "\r\n"), Glue: len(payload) > 0 && t.Bool(), Last: last})
				tx.Msg = append(tx.Msg, payload...)
				wt := w()
				if last {
					wt = -wt
				}
				if len(payload) > 0 {
					add(Step{Kind: kPayload, Data: payload, Segs: drawSegs(t, len(payload), nil), Wait: wt})
				} else {
					steps[len(steps)-1].Wait = wt
				}
				if last {
					tx.End = off
					tx.FinalIdx = nrep
					nrep += tx.NFinal
				} else {
					nrep++
				}
			}
			switch tx.Abandon {
			case "RSET":
				add(Step{Kind: kRset, Data: []byte("RSET\r\n"), Wait: w()})
				nrep++
			case "EHLO":
				add(Step{Kind: kHelo, Data: heloLine(sc.Srv), Wait: w()})
				nrep++
			case "MAIL":
				// refused during a transfer, which stays open; then RSET
				add(Step{Kind: kMail, Data: line("MAIL FROM:<ok-x%d@a.example>", m), Wait: w()})
				add(Step{Kind: kRset, Data: []byte("RSET\r\n"), Wait: w()})
				nrep += 2
			case "QUIT", "none":
				// the conversation ends here
				x.Txns = append(x.Txns, tx)
				if tx.Abandon == "QUIT" {
					add(Step{Kind: kQuit, Data: []byte("QUIT\r\n"), Wait: w()})
					nrep++
				}
				goto done
			}
		}
		x.Txns = append(x.Txns, tx)
	}
	add(Step{Kind: kQuit, Data: []byte("QUIT\r\n"), Wait: w()})
	nrep++
done:
	// a third of the corpus runs under a size limit that the largest message
	// meets exactly (every message still fits): the limited reader's look-ahead
	// for the end marker is then on the path of every cut near the end
	if t.Chance(1, 3) {
		max := 0
		for _, tx := range x.Txns {
			if len(tx.Msg) > max {
				max = len(tx.Msg)
			}
		}
		if max > 0 {
			sc.Srv.MaxMsg = int64(max)
		}
	}
	x.Total = off
	x.NReply = nrep
	cs := ConnScript{Lat: drawLat(t), SrvCaps: drawCaps(t), Steps: steps}
	cs.defaults()
	// the cut
	// cuts are enumerated (forced), never drawn: the unforced run is the fault-free base run
	if v := t.Named("cut", x.Total+2); t.HasOver("cut") && v > 0 {
		x.Cut = v - 1
		x.CutKind = 1 + t.Named("cutkind", 4)
		cs.Cut = x.Cut
		cs.CutKind = x.CutKind
		if x.CutKind == cutStall {
			sc.Srv.ReadTO = 10 * time.Minute
		}
	}
	// Server.Close at a forced instant (enumerated like the cuts): the third way a
	// connection ends under a transfer
	if v := t.Named("srvclose", 64); t.HasOver("srvclose") && v > 0 {
		sc.Admin = []AdminStep{{At: Dur(v) * 150 * time.Microsecond, Kind: aClose}}
		x.SrvClose = true
		// slow the conversation down so that the instants fall inside it
		for i := range cs.Steps {
			if cs.Steps[i].Pre == 0 {
				cs.Steps[i].Pre = 300 * time.Microsecond
			}
		}
	}
	cs.SrvEOFWithData = t.Bool()
	sc.Conns = []ConnScript{cs}
	cp.LogoutErr = t.Chance(1, 4)
	sc.BE.Conns = []ConnBackendPlan{cp}
	return x
}

func genC07(t *Tape, tier string) *Scenario {
	sc := &Scenario{Prop: "C07"}
	sc.X = genConversation(t, sc, true)
	return sc
}

// expandCuts lists one forced run per cut offset (FIN), plus RST, half-close
// and stall-until-ReadTimeout at a sample of offsets.
func expandCuts(sc *Scenario, h *History, tier string) []map[string]int {
	x, ok := sc.X.(*convX)
	if !ok || x.Cut >= 0 || x.SrvClose {
		return nil
	}
	var out []map[string]int
	for k := 0; k <= x.Total; k++ {
		out = append(out, map[string]int{"cut": k + 1, "cutkind": cutFIN - 1})
		if k%5 == 2 {
			out = append(out, map[string]int{"cut": k + 1, "cutkind": cutRST - 1})
		}
		if k%7 == 3 {
			out = append(out, map[string]int{"cut": k + 1, "cutkind": cutHalf - 1})
		}
		if k%9 == 4 {
			out = append(out, map[string]int{"cut": k + 1, "cutkind": cutStall - 1})
		}
	}
	for v := 1; v < 64; v++ {
		out = append(out, map[string]int{"srvclose": v})
	}
	return out
}

func checkC07(sc *Scenario, h *History) []Violation {
	var out []Violation
	x := sc.X.(*convX)
	ch := h.Conns[0]
	evs := dataEvents(h, 0)
	replies, _ := parseReplies(ch.S2C.Buf) // everything the server wrote, delivered or not
	if sc.Srv.TLS == tlsImplicit {
		// below TLS the tap sees ciphertext: judge what the client could still read
		replies, _ = parseReplies(ch.Recv)
		if ch.HandshakeErr != "" {
			return out
		}
	}
	sent := len(ch.Sent)
	wit := fmt.Sprintf("cut=%d kind=%d of %d", x.Cut, x.CutKind, x.Total)
	if x.SrvClose {
		// the server side ended the connection: what counts is what it had pulled by then
		sent = ch.C2S.Consumed
	}
	for i, tx := range x.Txns {
		complete := tx.End >= 0 && sent >= tx.End
		var ev *BEvent
		if i < len(evs) {
			ev = evs[i]
		}
		w := fmt.Sprintf("%s txn=%d bdat=%v msg=%q", wit, i, tx.ViaBdat, clip(string(tx.Msg), 60))
		if ev != nil {
			if !bytes.HasPrefix(tx.Msg, ev.Read) {
				out = append(out, Violation{Rule: "C07.octets", Detail: fmt.Sprintf("backend read %q, not a prefix of the message %q", clip(string(ev.Read), 100), clip(string(tx.Msg), 100)), Witness: w})
				continue
			}
			if ev.SawEOF && !bytes.Equal(ev.Read, tx.Msg) {
				out = append(out, Violation{Rule: "C07.eof-short", Detail: fmt.Sprintf("the reader reported EOF after %d of %d message octets", len(ev.Read), len(tx.Msg)), Witness: w})
				continue
			}
			if !complete && ev.SawEOF {
				out = append(out, Violation{Rule: "C07.incomplete-eof", Detail: fmt.Sprintf("the message was not received in full (%d of %d client octets delivered) but the reader reported EOF", sent, tx.End), Witness: w})
				continue
			}
			if complete && (x.Cut < 0 || x.CutKind == cutFIN || x.CutKind == cutHalf) && !x.SrvClose && ev.Done && !tx.Partial && !(ev.SawEOF && bytes.Equal(ev.Read, tx.Msg)) && sc.Srv.TLS != tlsImplicit {
				// the other direction: a message that did arrive in full, with the peer's FIN
				// right behind it, is delivered in full
				out = append(out, Violation{Rule: "C07.complete-lost", Detail: fmt.Sprintf("the message was received in full (the connection ended %d octets behind its end) but the backend read %d of %d octets and its reader ended with %q", sent-tx.End, len(ev.Read), len(tx.Msg), ev.Terminal), Witness: w})
				continue
			}
			if !ev.Done {
				out = append(out, Violation{Rule: "C07.data-stuck", Detail: "the backend's Data call never returned although the connection ended", Witness: w})
				continue
			}
			if !complete && ev.Terminal == "" && !tx.Partial {
				out = append(out, Violation{Rule: "C07.no-error", Detail: "incomplete message: the reader never returned an error to a backend that reads to the end", Witness: w})
			}
		}
		if !complete && tx.FinalIdx >= 0 {
			for k := 0; k < tx.NFinal; k++ {
				if tx.FinalIdx+k < len(replies) && replies[tx.FinalIdx+k].Code/100 == 2 {
					out = append(out, Violation{Rule: "C07.positive-reply", Detail: fmt.Sprintf("incomplete message answered with a positive final reply %s", replies[tx.FinalIdx+k]), Witness: w})
					break
				}
			}
		}
		// whatever ended the connection: a positive final reply is only ever written for a
		// message whose reader saw all of it and then EOF
		if tx.FinalIdx >= 0 && sc.Srv.TLS != tlsImplicit {
			for k := 0; k < tx.NFinal; k++ {
				if tx.FinalIdx+k < len(replies) && replies[tx.FinalIdx+k].Code/100 == 2 && x.Cut < 0 && !x.SrvClose {
					break // fault-free base run: judged below
				}
				if tx.FinalIdx+k < len(replies) && replies[tx.FinalIdx+k].Code/100 == 2 && (ev == nil || !ev.SawEOF || !bytes.Equal(ev.Read, tx.Msg)) {
					out = append(out, Violation{Rule: "C07.positive-reply", Detail: fmt.Sprintf("final reply %s although the backend's reader never delivered the whole message with EOF", replies[tx.FinalIdx+k]), Witness: w})
					break
				}
			}
		}
		if complete && x.Cut < 0 && !x.SrvClose {
			// fault-free base run: the corpus itself must be healthy
			if tx.Partial {
				// nothing to compare: the backend chose not to read everything
			} else if ev == nil || !ev.SawEOF || !bytes.Equal(ev.Read, tx.Msg) {
				out = append(out, Violation{Rule: "C07.base", Detail: "fault-free run: the complete message did not arrive intact with EOF", Witness: w})
			} else if tx.FinalIdx < len(replies) {
				pos := replies[tx.FinalIdx].Code/100 == 2
				if pos == tx.Reject {
					out = append(out, Violation{Rule: "C07.base", Detail: fmt.Sprintf("fault-free run: final reply %s does not match the backend verdict (reject=%v)", replies[tx.FinalIdx], tx.Reject), Witness: w})
				}
			}
		}
	}
	if x.Cut < 0 && !x.SrvClose && len(replies) != x.NReply {
		var codes []string
		for _, r := range replies {
			codes = append(codes, fmt.Sprint(r.Code))
		}
		out = append(out, Violation{Rule: "C07.base", Detail: fmt.Sprintf("fault-free run: expected %d replies, got %d: %s", x.NReply, len(replies), strings.Join(codes, " ")), Witness: wit})
	}
	return out
}

func classifyConv(sc *Scenario, h *History, st *Stats) string {
	x := sc.X.(*convX)
	sent := len(h.Conns[0].Sent)
	inside := false
	for _, tx := range x.Txns {
		if tx.Partial && x.Cut >= 0 && tx.End >= 0 && sent > tx.Start && sent < tx.End {
			st.Probes["cut_inside_transfer_with_backend_not_reading_to_the_end"]++
		}
		if tx.Abandon != "" {
			st.Probes["transfer_abandoned_by_"+tx.Abandon]++
		}
		if sc.Srv.MaxMsg > 0 && int64(len(tx.Msg)) == sc.Srv.MaxMsg && x.Cut >= 0 && tx.End >= 0 && sent > tx.Start && sent < tx.End {
			st.Probes["cut_inside_message_of_exactly_the_size_limit"]++
		}
		if x.Cut >= 0 && tx.End >= 0 && sent > tx.Start && sent < tx.End {
			inside = true
			if tx.ViaBdat {
				st.Probes["cut_inside_bdat_transfer"]++
				if tx.EmptyLast && tx.End-sent <= 2 {
					st.Probes["cut_inside_the_line_end_of_an_empty_LAST_chunk"]++
				}
			} else {
				st.Probes["cut_inside_data_transfer"]++
				if tx.End-sent <= 5 {
					st.Probes["cut_inside_end_marker"]++
				}
			}
		}
	}
	if x.SrvClose {
		for _, tx := range x.Txns {
			if tx.End >= 0 && h.Conns[0].C2S.Consumed > tx.Start && h.Conns[0].C2S.Consumed < tx.End {
				st.Probes["server_close_inside_transfer"]++
				return fmt.Sprintf("srvclose|%d|%d|%s", h.Conns[0].C2S.Consumed, x.Total, classString(h.Conns[0].Sent, 300))
			}
		}
		return ""
	}
	if x.Cut < 0 {
		return fmt.Sprintf("base|%d|%d", x.Total, len(x.Txns))
	}
	if !inside {
		return ""
	}
	return fmt.Sprintf("%d|%d|%d|%s", x.Cut, x.CutKind, x.Total, classString(h.Conns[0].Sent, 400))
}

func init() {
	register(&Property{
		ID: "C07", Level: "fault_enumeration",
		Rule:        "a seeded corpus of healthy conversations (1-3 transactions, DATA and BDAT with 1-3 chunks (a third of the multi-chunk transfers closed by an empty LAST chunk), SMTP/LMTP, bodies with partial end markers, lock-step or pipelined, some transfers abandoned by RSET/QUIT/EHLO/MAIL/nothing); for EACH conversation one run per octet offset of the client's stream at which the connection is cut with FIN, plus RST / half-close / stall-until-ReadTimeout at every 5th/7th/9th offset, plus Server.Close at 63 instants spread over the (slowed) conversation. Non-trivial: the cut falls strictly inside a message transfer (after the DATA/BDAT command began, before the last octet of the end marker or LAST payload); distinct by (offset, kind, conversation).",
		Gen:         genC07,
		Check:       checkC07,
		Classify:    classifyConv,
		Expand:      expandCuts,
		Real:        []string{"smtp.Server.Serve/handleConn", "smtp.Conn handleData/handleDataLMTP/handleBdat/reset/Close", "dataReader", "io.Pipe", "lineLimitReader", "net/textproto", "bufio"},
		Stub:        []string{"net.Listener (SimListener)", "net.Conn (SimConn) with cut/RST/half-close/stall faults", "Backend/Session (SimBackend, reads to the end, propagates reader errors)", "clock (synctest)", "SMTP client (raw driver)"},
		Assumptions: []string{"the other direction is judged for FIN and half-close cuts only: a message that arrived in full is delivered in full even when the peer's FIN is right behind it (also when the transport returns the last octets together with io.EOF)", "exhaustive over cut offsets of the generated corpus, not over all conversations", "reply positions are static because every command of the corpus is valid; replies are read from what the server wrote, delivered or not"},
		Required:    []string{"cut_inside_end_marker", "cut_inside_bdat_transfer", "cut_inside_data_transfer", "cut_inside_message_of_exactly_the_size_limit", "cut_fin", "cut_rst", "cut_halfclose", "stall", "server_close_inside_transfer", "transfer_abandoned_by_RSET", "transfer_abandoned_by_QUIT", "cut_inside_the_line_end_of_an_empty_LAST_chunk"},
		Instr:       true,
		QuickRuns:   900, ThoroughRuns: 60000,
	})
}
