package sim

import (
	"encoding/hex"
	"errors"
	"os"
	"runtime"
	"strings"
	"sync"

	"github.com/emersion/go-sasl"
	smtp "github.com/emersion/go-smtp"
)

// underConnLock reports whether (*smtp.Conn).Close or (*smtp.Conn).reset is on
// the call stack, i.e. whether Conn.locker is held by this goroutine. A harness
// callback must not park in that case (a sleeper under a mutex plus a contender
// freezes the fake clock).
// raceTier: in the race-detector build the mutex is never probed (a TryLock is
// a synchronisation the detector would take for an ordering between the command
// loop and Server.Close); the call stack is used there.
var raceTier = os.Getenv("VERIF_RACE") != ""

// connLocked reports whether the mutex of the smtp.Conn that serves sc is held.
// Under the simulation's discipline (one actor runs at an instant, nobody parks
// with the mutex held) "held at all" means "held by the caller". For the
// client endpoint and before the server has announced the Conn it falls back
// to the call stack.
func connLocked(sc *SimConn) bool {
	if sc != nil && sc.owner != nil && !raceTier {
		return heldByCaller(sc.owner)
	}
	return underConnLock()
}

// heldByCaller tells whether the Conn's mutex is held by the calling goroutine.
// The mutex can only be probed for "held by somebody"; but nobody keeps it
// across a blocking point (that is what is being policed), so a holder other
// than the caller - the command loop inside reset() while a delivery goroutine
// asks, Server.Close preempted in the middle of Conn.Close - lets go of it as
// soon as it gets the processor. Held after many yields means held by us.
func heldByCaller(c *smtp.Conn) bool {
	if !probeConnLocked(c) {
		return false
	}
	for i := 0; i < probeYields; i++ {
		runtime.Gosched()
		if !probeConnLocked(c) {
			return false
		}
	}
	return true
}

// probeMu serialises the probes: a probe is a TryLock followed by an Unlock, and two
// goroutines of one instant that probed side by side could each take the other's probe
// for a holder (seen once in 10^5 runs of the instr tier under GOMAXPROCS=4, where the
// other goroutine can lose the processor in the middle of its probe).
var probeMu sync.Mutex

const probeYields = 1000

func probeConnLocked(c *smtp.Conn) bool {
	probeMu.Lock()
	defer probeMu.Unlock()
	return smtp.VerifConnLocked(c)
}

func underConnLock() bool {
	var pcs [32]uintptr
	n := runtime.Callers(2, pcs[:])
	frames := runtime.CallersFrames(pcs[:n])
	for {
		f, more := frames.Next()
		if strings.HasSuffix(f.Function, "go-smtp.(*Conn).Close") || strings.HasSuffix(f.Function, "go-smtp.(*Conn).reset") {
			return true
		}
		if !more {
			return false
		}
	}
}

// SaslStep is the scripted reaction of the server mechanism to the i-th
// response it is handed.
type SaslStep struct {
	Challenge []byte
	Done      bool
	Fail      bool
}

// AuthPlan scripts AuthMechanisms/Auth of an AuthSession.
type AuthPlan struct {
	Mechs []string
	Steps []SaslStep
}

var errSaslFail = errors.New("scripted SASL failure")

func (s *simSession) authMechs() []string {
	ev := s.b.begin(s.conn, s.id, "AuthMechs", "")
	ev.finish(nil)
	if s.cp.Auth == nil {
		return nil
	}
	return s.cp.Auth.Mechs
}

func (s *simSession) auth(mech string) (sasl.Server, error) {
	ev := s.b.begin(s.conn, s.id, "Auth", mech)
	if s.cp.Auth == nil {
		ev.finish(smtp.ErrAuthUnsupported)
		return nil, smtp.ErrAuthUnsupported
	}
	ok := false
	for _, m := range s.cp.Auth.Mechs {
		if m == mech {
			ok = true
		}
	}
	if !ok {
		ev.finish(smtp.ErrAuthUnknownMechanism)
		return nil, smtp.ErrAuthUnknownMechanism
	}
	ev.finish(nil)
	return &scriptedSaslServer{s: s, plan: s.cp.Auth}, nil
}

type scriptedSaslServer struct {
	s    *simSession
	plan *AuthPlan
	i    int
}

func hexOrNil(b []byte) string {
	if b == nil {
		return "nil"
	}
	return "x" + hex.EncodeToString(b)
}

func (m *scriptedSaslServer) Next(response []byte) ([]byte, bool, error) {
	ev := m.s.b.begin(m.s.conn, m.s.id, "SaslNext", hexOrNil(response))
	i := m.i
	m.i++
	if i >= len(m.plan.Steps) {
		ev.Opts = "done"
		ev.finish(nil)
		return nil, true, nil
	}
	st := m.plan.Steps[i]
	if st.Fail {
		ev.Opts = "fail"
		ev.finish(errSaslFail)
		return nil, false, smtp.ErrAuthFailed
	}
	if st.Done {
		ev.Opts = "done"
		ev.finish(nil)
		return nil, true, nil
	}
	ev.Opts = "challenge " + hexOrNil(st.Challenge)
	ev.finish(nil)
	return st.Challenge, false, nil
}

// ---------------------------------------------------------------------------

// ClientSaslStep is the scripted reaction of the client mechanism to the i-th
// challenge.
type ClientSaslStep struct {
	Resp []byte
	Err  bool
}

// ClientSaslPlan scripts a sasl.Client.
type ClientSaslPlan struct {
	Mech     string
	IR       []byte // nil = no initial response
	StartErr bool
	Steps    []ClientSaslStep
}

var errClientSasl = errors.New("scripted client mechanism error")

type scriptedSaslClient struct {
	plan  *ClientSaslPlan
	i     int
	Calls []string // recorded: "start", "next <hex>"
}

func (c *scriptedSaslClient) Start() (string, []byte, error) {
	c.Calls = append(c.Calls, "start")
	if c.plan.StartErr {
		return "", nil, errClientSasl
	}
	return c.plan.Mech, c.plan.IR, nil
}

func (c *scriptedSaslClient) Next(challenge []byte) ([]byte, error) {
	c.Calls = append(c.Calls, "next "+hexOrNil(challenge))
	i := c.i
	c.i++
	if i >= len(c.plan.Steps) {
		return []byte{}, nil
	}
	if c.plan.Steps[i].Err {
		return nil, errClientSasl
	}
	return c.plan.Steps[i].Resp, nil
}

// logoutLocked is connLocked for the one place where the race-detector build probes
// the mutex too: a Logout is the last thing that happens to a session, so the one
// synchronisation the probe adds orders nothing the detector still has to judge on
// that session, and a slow Logout is worth exploring there as well.
func logoutLocked(sc *SimConn) bool {
	if sc != nil && sc.owner != nil {
		return heldByCaller(sc.owner)
	}
	return underConnLock()
}
