//go:build verifinstr

package sim

import (
	"os"
	"runtime"
	"sync"
	"time"

	smtp "github.com/emersion/go-smtp"
)

// Yield points inserted by program (cmd/verifctl/instrument.go) into a scratch copy of
// the library: in front of every statement of server.go and conn.go at which no mutex
// of the library can be held. A run parks at a drawn subset of them, so that another
// goroutine can get in between any two statements - also in stretches where nobody put
// a yield point by hand, and in windows that a change to the library opens. Only the
// build without the race detector uses them (the lock probe below is a synchronisation
// the detector would take for an ordering).

func autoSites() []string { return smtp.VerifAutoSites }

var autoReg struct {
	mu    sync.Mutex
	conns []*smtp.Conn
	srv   *smtp.Server
}

func autoRegisterConn(c *smtp.Conn) {
	autoReg.mu.Lock()
	autoReg.conns = append(autoReg.conns, c)
	autoReg.mu.Unlock()
}

func autoRegisterServer(s *smtp.Server) {
	autoReg.mu.Lock()
	autoReg.srv = s
	autoReg.conns = nil
	autoReg.mu.Unlock()
}

// autoLocksHeld tells whether the calling goroutine holds a mutex of the library: the
// server's or any connection's. A mutex can only be probed for "held by somebody"; nobody
// keeps one across a blocking point, so a holder other than the caller lets go of it as
// soon as it gets the processor - held after many yields means held by the caller.
func autoLocksHeld(c *smtp.Conn, s *smtp.Server) bool {
	autoReg.mu.Lock()
	conns := append([]*smtp.Conn(nil), autoReg.conns...)
	if s == nil {
		s = autoReg.srv
	}
	autoReg.mu.Unlock()
	probe := func() bool {
		probeMu.Lock()
		defer probeMu.Unlock()
		if smtp.VerifLocksHeld(c, s) {
			return true
		}
		for _, k := range conns {
			if k != c && smtp.VerifLocksHeld(k, nil) {
				return true
			}
		}
		return false
	}
	if !probe() {
		return false
	}
	for i := 0; i < probeYields; i++ {
		runtime.Gosched()
		if !probe() {
			return false
		}
	}
	return true
}

var autoDebug = os.Getenv("VERIF_AUTODEBUG") != ""

func installAutoYield(cfg *AutoYieldCfg, h *History) func() {
	if cfg == nil {
		smtp.VerifAutoYield = nil
		return func() {}
	}
	var mu sync.Mutex
	var spent int64 // fake time parked so far in this run
	smtp.VerifAutoYield = func(point string, c *smtp.Conn, s *smtp.Server) {
		hp := hash64(point)
		if cfg.Site != "" {
			if point != cfg.Site {
				return
			}
		} else if (hp^cfg.Salt)%uint64(cfg.Mod) != 0 {
			return
		}
		if autoDebug {
			mu.Lock()
			h.AutoParks = append(h.AutoParks, AutoPark{At: time.Now().UnixNano(), Site: point + " (entered)"})
			mu.Unlock()
		}
		if autoLocksHeld(c, s) {
			mu.Lock()
			h.AutoSkipped++
			h.AutoParks = append(h.AutoParks, AutoPark{At: time.Now().UnixNano(), Site: point + " PASSED WITH A MUTEX HELD (no park)"})
			mu.Unlock()
			return
		}
		now := time.Now().UnixNano()
		// the wake instant's class depends on where the caller stands now and on the site:
		// two goroutines of the library that run at one instant part ways here
		class := 300 + int((uint64(now%classMod)*131+hp)%500)
		until := alignClass(now+int64(cfg.Park), class)
		if until <= now {
			until += classMod
		}
		mu.Lock()
		if cfg.Budget > 0 && spent >= int64(cfg.Budget) {
			h.AutoOverBudget++
			mu.Unlock()
			return
		}
		spent += until - now
		h.AutoParks = append(h.AutoParks, AutoPark{At: now, Until: until, Site: point})
		mu.Unlock()
		sleepClass(class, cfg.Park)
	}
	return func() { smtp.VerifAutoYield = nil }
}
