package sim

import (
	"context"
	"crypto/ecdsa"
	"crypto/elliptic"
	"crypto/rand"
	"crypto/tls"
	"crypto/x509"
	"crypto/x509/pkix"
	"fmt"
	"math/big"
	"net"
	"os"
	"regexp"
	"runtime"
	"sort"
	"strings"
	"sync"
	"sync/atomic"
	"testing"
	"testing/synctest"
	"time"

	smtp "github.com/emersion/go-smtp"
)

// AdminResult records one Server.Close / Server.Shutdown call.
type AdminResult struct {
	Kind     int
	CallAt   int64
	RetAt    int64
	Returned bool
	Err      string
	Panic    string
	CallSeq  int64 // global event sequence numbers, for linearizability checking
	RetSeq   int64
}

// History is everything recorded during one run.
type History struct {
	Conns  []*ConnHistory
	Events []*BEvent
	Logs   []string

	ServeReturned bool
	ServeErr      string
	ServeAt       int64
	Admin         []AdminResult
	FinalCloseErr string

	Leaked      int
	LeakDump    string
	BubblePanic string
	Start, End  int64

	LnAccepted, LnErrors, LnCloseCalls, LnLateOffers int
	DebugBytes                                       int64
	Races                                            int

	AutoParks      []AutoPark // parks at inserted yield points (instr tier)
	AutoOverBudget int        // inserted yield points passed after the run's park budget was used up
	AutoSkipped    int        // inserted yield points passed with a mutex of the library held (never parked at)
}

type AutoPark struct {
	At, Until int64
	Site      string
}

type logRec struct {
	at     int64
	format string
	args   []interface{}
	ln     bool
}

type recLogger struct {
	mu   sync.Mutex
	recs []logRec
	park Dur
	n    atomic.Int64
}

func (l *recLogger) Printf(format string, v ...interface{}) {
	l.mu.Lock()
	l.recs = append(l.recs, logRec{at: time.Now().UnixNano(), format: format, args: v})
	l.mu.Unlock()
	if l.park > 0 {
		// a slow log sink (the library calls it with no lock held)
		sleepClass(60+int(l.n.Add(1))%8, l.park)
	}
}

func (l *recLogger) Println(v ...interface{}) {
	l.mu.Lock()
	l.recs = append(l.recs, logRec{at: time.Now().UnixNano(), args: v, ln: true})
	l.mu.Unlock()
}

func (l *recLogger) lines() []string {
	l.mu.Lock()
	defer l.mu.Unlock()
	// Lines of one instant are put in the order of their text: which of two connections
	// Server.Close reaches first (it walks a Go map) must not show in the event log.
	type tl struct {
		at int64
		s  string
	}
	var ls []tl
	for _, r := range l.recs {
		if r.ln {
			ls = append(ls, tl{r.at, fmt.Sprintln(r.args...)})
		} else {
			ls = append(ls, tl{r.at, fmt.Sprintf(r.format, r.args...)})
		}
	}
	sort.SliceStable(ls, func(i, j int) bool {
		if ls[i].at != ls[j].at {
			return ls[i].at < ls[j].at
		}
		return ls[i].s < ls[j].s
	})
	var out []string
	for _, x := range ls {
		out = append(out, x.s)
	}
	return out
}

type debugSink struct{ n atomic.Int64 }

func (d *debugSink) Write(b []byte) (int, error) {
	d.n.Add(int64(len(b)))
	return len(b), nil
}

var (
	tlsOnce      sync.Once
	srvTLSConfig *tls.Config
	cliTLSConfig *tls.Config
)

func tlsConfigs() (*tls.Config, *tls.Config) {
	tlsOnce.Do(func() {
		key, err := ecdsa.GenerateKey(elliptic.P256(), rand.Reader)
		if err != nil {
			panic(err)
		}
		tmpl := &x509.Certificate{
			SerialNumber: big.NewInt(1),
			Subject:      pkix.Name{CommonName: "sim.test"},
			NotBefore:    time.Date(1990, 1, 1, 0, 0, 0, 0, time.UTC),
			NotAfter:     time.Date(2100, 1, 1, 0, 0, 0, 0, time.UTC),
			DNSNames:     []string{"sim.test", "server"},
			KeyUsage:     x509.KeyUsageDigitalSignature,
			ExtKeyUsage:  []x509.ExtKeyUsage{x509.ExtKeyUsageServerAuth},
		}
		der, err := x509.CreateCertificate(rand.Reader, tmpl, tmpl, &key.PublicKey, key)
		if err != nil {
			panic(err)
		}
		cert := tls.Certificate{Certificate: [][]byte{der}, PrivateKey: key}
		srvTLSConfig = &tls.Config{Certificates: []tls.Certificate{cert}}
		cliTLSConfig = &tls.Config{InsecureSkipVerify: true, ServerName: "sim.test"}
	})
	return srvTLSConfig, cliTLSConfig
}

// serveConnParks counts, per run, the parks at the serve.conn yield point (coverage probe).
var serveConnParks atomic.Int64

// deliverParks counts, per run, the parks at the deliver.start yield point (coverage probe).
var deliverParks atomic.Int64

const (
	classMain   = 0
	classListen = 2
	classAdmin  = 3   // +index
	classWoken  = 900 // 900..999: a library goroutine woken at another actor's instant (conn.woken)
)

// runScenario executes sc inside a fresh synctest bubble against the real
// library and returns the recorded history.
func runScenario(t *testing.T, sc *Scenario) *History {
	// The run gets its own goroutine: when the race detector has reported
	// something during the bubble, the testing package fails the bubble's test
	// and synctest.Test leaves through runtime.Goexit, which must not take the
	// worker loop with it. The deferred collection below still runs.
	h := &History{}
	done := make(chan struct{})
	go func() {
		defer close(done)
		runScenarioIn(t, sc, h)
	}()
	<-done
	return h
}

func runScenarioIn(t *testing.T, sc *Scenario, h *History) {
	srvTLS, cliTLS := tlsConfigs()
	be := NewSimBackend(sc.BE)
	logger := &recLogger{park: sc.LogPark}
	dbg := &debugSink{}
	var ln *SimListener
	var halves [][2]*SimConn

	defer func() {
		if r := recover(); r != nil {
			h.BubblePanic = fmt.Sprint(r)
		}
		// Collect after the bubble has ended (documented happens-before edge).
		h.Events = be.Events()
		h.Logs = logger.lines()
		h.DebugBytes = dbg.n.Load()
		if ln != nil {
			ln.mu.Lock()
			h.LnAccepted, h.LnErrors, h.LnCloseCalls, h.LnLateOffers = ln.Accepted, ln.Errors, ln.CloseCalls, ln.LateOffers
			ln.mu.Unlock()
		}
		for i, ch := range h.Conns {
			ch.C2S = halves[i][0].rd.record()
			ch.S2C = halves[i][0].wr.record()
			ch.SrvLateWrites = halves[i][0].lateWrites
			ch.SrvBlocked, ch.SrvBlockedTO = halves[i][0].blocked, halves[i][0].blockedTimeouts
			ch.SrvBlockedUnderLock = halves[i][0].blockedUnderLock + halves[i][0].unboundedUnderLock
		}
	}()

	{
		yp := sc.YieldPark
		var yn atomic.Int64
		points := map[string]bool{"server.close": true, "server.shutdown": true}
		if sc.YieldPoints != nil {
			points = map[string]bool{}
			for _, p := range sc.YieldPoints {
				points[p] = true
			}
		}
		smtp.VerifNewConn = func(c *smtp.Conn) {
			if sc := simConnOf(c.Conn()); sc != nil {
				sc.owner = c
			}
			autoRegisterConn(c)
		}
		defer func() { smtp.VerifNewConn = nil }()
		smtp.VerifYield = func(point string) {
			if point == "conn.woken" {
				// The command loop was woken by another goroutine through the library's own
				// synchronisation and is running at that goroutine's instant, next to it.
				// It goes on at an instant derived from the waker's class, when the waker
				// has run to its next blocking point.
				if w := int(time.Now().UnixNano() % classMod); w < classWoken {
					sleepClass(classWoken+w%(classMod-classWoken), 0)
				}
			}
			if fy := os.Getenv("VERIF_FORCE_YIELD"); fy != "" && fy == point {
				sleepClass(40+int(yn.Add(1))%8, 700*time.Microsecond) // debugging aid
				return
			}
			if yp == 0 || !points[point] {
				return
			}
			// each caller parks in its own residue class
			if point == "serve.conn" {
				serveConnParks.Add(1)
			}
			if point == "deliver.start" {
				deliverParks.Add(1)
			}
			sleepClass(40+int(yn.Add(1))%8, yp)
		}
		defer func() { smtp.VerifYield = nil }()
		defer installAutoYield(sc.AutoYield, h)()
	}
	synctest.Test(t, func(t *testing.T) {
		baseline := runtime.NumGoroutine()
		h.Start = time.Now().UnixNano()
		var seq atomic.Int64

		srv := smtp.NewServer(be)
		autoRegisterServer(srv)
		srv.Domain = "sim.test"
		srv.LMTP = sc.Srv.LMTP
		srv.MaxLineLength = sc.Srv.MaxLine
		srv.MaxMessageBytes = sc.Srv.MaxMsg
		srv.MaxRecipients = sc.Srv.MaxRcpt
		srv.ReadTimeout = sc.Srv.ReadTO
		srv.WriteTimeout = sc.Srv.WriteTO
		srv.EnableSMTPUTF8 = sc.Srv.UTF8
		srv.EnableREQUIRETLS = sc.Srv.ReqTLS
		srv.EnableBINARYMIME = sc.Srv.BinaryMIME
		srv.EnableDSN = sc.Srv.DSN
		srv.EnableRRVS = sc.Srv.RRVS
		srv.AllowInsecureAuth = sc.Srv.InsecureAuth
		srv.ErrorLog = logger
		if sc.Srv.TLS != tlsNone {
			srv.TLSConfig = srvTLS
		}
		if sc.Srv.Debug {
			srv.Debug = dbg
		}

		ln = NewSimListener(classListen)
		if sc.ListenerCloseErr {
			ln.CloseErr = fmt.Errorf("listener close failed (simulated)")
		}

		// every connection's endpoints exist (and are known to the backend) before any goroutine starts
		pairs := make([][2]*SimConn, len(sc.Conns))
		for i := range sc.Conns {
			srvEnd, cliEnd := NewConnPair(i)
			pairs[i] = [2]*SimConn{srvEnd, cliEnd}
			be.srvConns[i] = srvEnd
		}

		serveDone := make(chan struct{})
		go func() {
			if sc.ServeDelay > 0 {
				sleepClass(classListen, sc.ServeDelay)
			}
			err := srv.Serve(ln)
			h.ServeReturned = true
			h.ServeAt = time.Now().UnixNano()
			if err != nil {
				h.ServeErr = err.Error()
			}
			close(serveDone)
		}()
		if !sc.NoWaitServe {
			ln.WaitAccepting()
		}

		var wg sync.WaitGroup
		h.Conns = make([]*ConnHistory, len(sc.Conns))
		halves = make([][2]*SimConn, len(sc.Conns))
		for i := range sc.Conns {
			cs := &sc.Conns[i]
			srvEnd, cliEnd := pairs[i][0], pairs[i][1]
			srvEnd.rd.lat = cs.Lat
			srvEnd.wr.lat = cs.LatBack
			srvEnd.rd.caps = cs.SrvCaps
			srvEnd.rd.eofWithData = cs.SrvEOFWithData
			srvEnd.faults = cs.SrvFaults
			cliEnd.faults.Rendezvous = cs.SrvFaults.Rendezvous
			cliEnd.faults.FailWriteAt = cs.CliFailWriteAt
			halves[i] = [2]*SimConn{srvEnd, cliEnd}
			ch := &ConnHistory{ID: i, TLSSent: -1, TLSRecv: -1, SrvCloseSeq: -1}
			h.Conns[i] = ch
			srvEnd.closeHook = func() {
				be.mu.Lock()
				ch.SrvCloseSeq = len(be.events)
				be.mu.Unlock()
			}
			offer := func(net.Conn) bool {
				for k := 0; k < cs.AcceptErrs; k++ {
					ln.Offer(nil, tempAcceptErr{}, nil)
				}
				var c net.Conn = srvEnd
				if sc.Srv.TLS == tlsImplicit {
					c = tls.Server(srvEnd, srvTLS)
				}
				return ln.Offer(c, nil, func() { ch.Accepted = true; ch.AcceptedAt = time.Now().UnixNano() })
			}
			if cs.Stub != nil {
				sh := &StubHistory{}
				ch.Stub = sh
				stubClass := 10 + 4*i + 3
				offer = func(net.Conn) bool {
					if cs.Stub.LMTP != nil {
						go runLMTPStub(srvEnd, cs.Stub, sh)
						return true
					}
					go runStub(srvEnd, cs.Stub, sh, srvTLS, stubClass)
					return true
				}
			}
			wg.Add(1)
			if cs.Client != nil {
				cd := &clientDriver{sc: cs, h: ch, raw: cliEnd, class: 12 + 4*i, tlsCfg: cliTLS, implicit: sc.Srv.TLS == tlsImplicit}
				go func() {
					defer wg.Done()
					cd.run(offer)
				}()
				continue
			}
			d := &driver{sc: cs, h: ch, raw: cliEnd, cur: cliEnd, class: 12 + 4*i, lmtp: sc.Srv.LMTP, tlsCfg: cliTLS, implicit: sc.Srv.TLS == tlsImplicit}
			go func() {
				defer wg.Done()
				d.run(offer)
			}()
		}

		h.Admin = make([]AdminResult, len(sc.Admin))
		for i := range sc.Admin {
			a := sc.Admin[i]
			res := &h.Admin[i]
			res.Kind = a.Kind
			wg.Add(1)
			go func() {
				defer wg.Done()
				defer func() {
					if r := recover(); r != nil {
						res.Panic = fmt.Sprint(r)
						res.RetAt = time.Now().UnixNano()
						res.RetSeq = seq.Add(1)
					}
				}()
				sleepClass(classAdmin+i, a.At)
				res.CallAt = time.Now().UnixNano()
				res.CallSeq = seq.Add(1)
				var err error
				switch a.Kind {
				case aClose:
					err = srv.Close()
				case aShutdown:
					ctx := context.Background()
					if a.Timeout > 0 {
						var cancel context.CancelFunc
						ctx, cancel = context.WithTimeout(ctx, a.Timeout)
						defer cancel()
					}
					err = srv.Shutdown(ctx)
				}
				res.RetSeq = seq.Add(1)
				res.RetAt = time.Now().UnixNano()
				res.Returned = true
				if err != nil {
					res.Err = err.Error()
				}
			}()
		}

		wg.Wait()
		// Let whatever the actors' last actions set in motion (a cut, a close)
		// play out before the harness itself acts again: two goroutines must
		// never be runnable at the same fake instant.
		sleepClass(classMain, 10*time.Second)

		// Scripted tail of Accept results.
		for k := 0; k < sc.AcceptTailTemp; k++ {
			ln.Offer(nil, tempAcceptErr{}, nil)
		}
		if sc.AcceptPermanent {
			ln.Offer(nil, errAcceptPermanent, nil)
			sleepClass(classMain, 10*time.Second)
		}

		func() {
			defer func() {
				if r := recover(); r != nil {
					h.FinalCloseErr = "panic: " + fmt.Sprint(r)
				}
			}()
			if err := srv.Close(); err != nil {
				h.FinalCloseErr = err.Error()
			}
		}()

		settle := sc.Settle
		if settle == 0 {
			settle = time.Hour
		}
		sleepClass(classMain, settle)
		synctest.Wait()
		h.End = time.Now().UnixNano()
		if n := runtime.NumGoroutine(); n > baseline {
			h.Leaked = n - baseline
			buf := make([]byte, 1<<20)
			buf = buf[:runtime.Stack(buf, true)]
			h.LeakDump = filterBubbleGoroutines(string(buf))
			if h.LeakDump == "" {
				h.Leaked = 0 // only leftovers of earlier runs in this process
			}
		}
		select {
		case <-serveDone:
		default:
		}
	})
}

// filterBubbleGoroutines keeps the stacks of goroutines that belong to the
// current synctest bubble and are not the bubble's main goroutine.
func filterBubbleGoroutines(dump string) string {
	gs := strings.Split(dump, "\n\n")
	bubble := ""
	for _, g := range gs {
		if strings.Contains(g, "sim.runScenario.func") && strings.Contains(g, "[running") {
			if m := bubbleRe.FindStringSubmatch(g); m != nil {
				bubble = m[1]
			}
		}
	}
	if bubble == "" {
		return ""
	}
	var out []string
	for _, g := range gs {
		m := bubbleRe.FindStringSubmatch(g)
		if m == nil || m[1] != bubble {
			continue
		}
		if strings.Contains(g, "[running") || strings.Contains(g, "internal/synctest.Run(") || strings.Contains(g, "synctest.testingSynctestTest(") {
			continue
		}
		out = append(out, g)
	}
	return strings.Join(out, "\n\n")
}

var bubbleRe = regexp.MustCompile(`synctest bubble (\d+)`)

func runtimeStackAll(buf []byte) int { return runtime.Stack(buf, true) }
