package sim

import (
	"bytes"
	"fmt"
	"sort"
	"strings"
	"time"
)

// C03 - backend callbacks follow RFC 5321 transaction order; envelopes never
// leak. C04 shares the history generator.

type histX struct {
	Cmds       []string // abstract symbols, for samples and fingerprints
	Discipline int      // 0 lock-step, 1 one write, 2 arbitrary segmentation
	Quit       bool
	SlowCB     int // 0 none; a backend callback takes longer than ReadTimeout: 1 Data, 2 Mail, 3 Rcpt
}

var histAlphabet = []string{
	"HELO", "EHLO", "LHLO", "EHLO-noarg", "EHLO-lower",
	"MAIL", "MAIL-r5", "MAIL-r4", "MAIL-pe", "MAIL-bad", "MAIL-null", "MAIL-size", "MAIL-unkparam", "MAIL-lower",
	"RCPT", "RCPT-r5", "RCPT-r4", "RCPT-bad", "RCPT-lower",
	"DATA", "DATA-arg", "DATA-reject", "DATA-early",
	"BDAT", "BDAT-last", "BDAT-0-last", "BDAT-0", "BDAT-bad", "BDAT-last-reject", "BDAT-last-early", "BDAT-early",
	"RSET", "NOOP", "VRFY", "AUTH", "STARTTLS", "QUIT-mid", "XYZZY", "HELP", "EMPTY",
	"CTRL-verb", "CTRL-helo", "CTRL-mail", "CTRL-rcpt", "BINARY",
	"AUTH-ir", "AUTH-2step", "AUTH-cancel", "AUTH-bad64",
}

var ctrlOctets = []string{"\r", "\x00", "\x01", "\x07", "\x7f", "\x1b", "\t", "\x80"}

// genHistory draws a command history of up to 25 abstract commands.
func genHistory(t *Tape, sc *Scenario, prop string) *histX {
	sc.Srv = drawCfg(t, cfgOpts{})
	if sc.Srv.MaxLine != 0 && sc.Srv.MaxLine < 200 {
		sc.Srv.MaxLine = 200
	}
	sc.Srv.InsecureAuth = t.Bool()
	if t.Chance(1, 5) {
		// a size limit between one and two of the ordinary chunks: some chunks are refused
		// with 552 - a failed chunk, which ends the transaction like any other
		sc.Srv.MaxMsg = 30
	}
	if sc.Srv.LMTP && t.Bool() {
		sc.BE.Flavor = beLMTP
	}
	x := &histX{}
	x.Discipline = t.Named("discipline", 3)
	lock := x.Discipline == 0
	var cp ConnBackendPlan
	if t.Chance(1, 5) {
		k := t.Intn(3)
		for i := 0; i < k; i++ {
			cp.NewSession = append(cp.NewSession, Verdict{})
		}
		cp.NewSession = append(cp.NewSession, Verdict{Kind: vSMTP, Code: 421, Enh: [3]int{4, 3, 2}, Msg: "no sessions available"})
	}
	for i := 0; i < 10; i++ {
		dp := DataPlan{ReadSizes: drawReadSizes(t), ContentVerdict: true}
		if t.Chance(1, 3) {
			dp.ParkAfter = Dur(1+t.Intn(4000)) * time.Microsecond // slow return: a stale delivery overlaps what follows
		}
		if t.Chance(1, 6) {
			dp.ParkBefore = Dur(1+t.Intn(2000)) * time.Microsecond
		}
		cp.Data = append(cp.Data, dp)
	}
	if t.Chance(1, 4) {
		// a backend with AUTH support: the 334 intermediate replies become reachable
		if sc.BE.Flavor == beLMTP {
			sc.BE.Flavor = beLMTPAuth
		} else {
			sc.BE.Flavor = beAuth
		}
		sc.Srv.InsecureAuth = true
		ap := &AuthPlan{Mechs: []string{"SIMPLE"}}
		for i, n := 0, t.Intn(3); i < n; i++ {
			ap.Steps = append(ap.Steps, SaslStep{Challenge: []byte(fmt.Sprintf("challenge-%d", i))})
		}
		if t.Chance(1, 4) {
			ap.Steps = append(ap.Steps, SaslStep{Fail: true})
		} else {
			ap.Steps = append(ap.Steps, SaslStep{Done: true})
		}
		cp.Auth = ap
	}
	sc.BE.Conns = []ConnBackendPlan{cp}

	helo := "EHLO"
	if sc.Srv.LMTP {
		helo = "LHLO"
	}
	steps := []Step{{Kind: kGreetWait, Wait: 1}}
	w := 0
	if lock {
		w = 1
	}
	n := 1 + t.Intn(25)
	// generator-side guess of the state, only used to bias the walk towards deep transactions
	greeted, mail, rcpt, xfer := false, false, 0, false
	uid := 0
	for i := 0; i < n; i++ {
		var sym string
		if t.Chance(1, 4) {
			sym = histAlphabet[t.Intn(len(histAlphabet))]
		} else {
			switch {
			case !greeted:
				sym = helo
			case xfer:
				sym = []string{"BDAT", "BDAT-last", "BDAT-last", "RSET", "MAIL", "BDAT-0-last", "BDAT-last-reject", "EHLO", "BDAT-last-early", "BDAT-early"}[t.Intn(10)]
			case !mail:
				sym = []string{"MAIL", "MAIL", "MAIL", "MAIL-r5", "MAIL-size", "NOOP", "MAIL-null"}[t.Intn(7)]
			case rcpt == 0:
				sym = []string{"RCPT", "RCPT", "RCPT", "RCPT-r5", "RCPT-r4", "DATA"}[t.Intn(6)]
			default:
				sym = []string{"DATA", "DATA", "BDAT", "BDAT", "BDAT-last", "RCPT", "RCPT", "RCPT-r5", "DATA-reject", "RSET", "BDAT-0", "BDAT-last-early", "DATA-early"}[t.Intn(13)]
			}
		}
		if sym == "EHLO" || sym == "LHLO" || sym == "HELO" {
			// keep the name, flavour decides validity
		}
		x.Cmds = append(x.Cmds, sym)
		uid++
		add := func(kind int, l string) {
			steps = append(steps, Step{Kind: kind, Data: []byte(l + "\r\n"), Wait: w})
		}
		switch sym {
		case "HELO":
			add(kHelo, fmt.Sprintf("HELO h%d.example", uid))
			if !sc.Srv.LMTP {
				greeted, mail, rcpt, xfer = true, false, 0, false
			}
		case "EHLO":
			add(kHelo, fmt.Sprintf("EHLO e%d.example", uid))
			if !sc.Srv.LMTP {
				greeted, mail, rcpt, xfer = true, false, 0, false
			}
		case "LHLO":
			add(kHelo, fmt.Sprintf("LHLO l%d.example", uid))
			if sc.Srv.LMTP {
				greeted, mail, rcpt, xfer = true, false, 0, false
			}
		case "EHLO-noarg":
			add(kHelo, helo)
		case "EHLO-lower":
			add(kHelo, fmt.Sprintf("%s lower%d.example", strings.ToLower(helo), uid))
			greeted, mail, rcpt, xfer = true, false, 0, false
		case "MAIL":
			add(kMail, fmt.Sprintf("MAIL FROM:<ok-s%d@a.example>", uid))
			if greeted && !xfer {
				mail, rcpt = true, 0
			}
		case "MAIL-lower":
			add(kMail, fmt.Sprintf("mail from:<ok-s%d@a.example>", uid))
			if greeted && !xfer {
				mail, rcpt = true, 0
			}
		case "MAIL-r5":
			add(kMail, fmt.Sprintf("MAIL FROM:<r5-s%d@a.example>", uid))
		case "MAIL-r4":
			add(kMail, fmt.Sprintf("MAIL FROM:<r4-s%d@a.example>", uid))
		case "MAIL-pe":
			add(kMail, fmt.Sprintf("MAIL FROM:<pe-s%d@a.example>", uid))
		case "MAIL-bad":
			add(kMail, []string{"MAIL FROM:<bad", "MAIL TO:<a@b.example>", "MAIL FROM:", "MAIL FROM:<@>"}[t.Intn(4)])
		case "MAIL-null":
			add(kMail, "MAIL FROM:<>")
			if greeted && !xfer {
				mail, rcpt = true, 0
			}
		case "MAIL-size":
			add(kMail, fmt.Sprintf("MAIL FROM:<ok-s%d@a.example> SIZE=100 BODY=8BITMIME", uid))
			if greeted && !xfer {
				mail, rcpt = true, 0
			}
		case "MAIL-unkparam":
			add(kMail, fmt.Sprintf("MAIL FROM:<ok-s%d@a.example> FROB=1", uid))
		case "RCPT":
			add(kRcpt, fmt.Sprintf("RCPT TO:<ok-r%d@b.example>", uid))
			if mail && !xfer {
				rcpt++
			}
		case "RCPT-lower":
			add(kRcpt, fmt.Sprintf("rcpt to:<ok-r%d@b.example>", uid))
			if mail && !xfer {
				rcpt++
			}
		case "RCPT-r5":
			add(kRcpt, fmt.Sprintf("RCPT TO:<r5-r%d@b.example>", uid))
		case "RCPT-r4":
			add(kRcpt, fmt.Sprintf("RCPT TO:<r4-r%d@b.example>", uid))
		case "RCPT-bad":
			add(kRcpt, []string{"RCPT TO:<bad", "RCPT FROM:<a@b.example>", "RCPT TO:", "RCPT TO:<a b@c>"}[t.Intn(4)])
		case "DATA", "DATA-reject", "DATA-early":
			add(kData, "DATA")
			verdict := "ok"
			if sym == "DATA-reject" {
				verdict = fmt.Sprintf("E-%d", uid)
			}
			body := fmt.Sprintf("msg-%d verdict:%s;\r\n", uid, verdict)
			if sym == "DATA-early" {
				body = fmt.Sprintf("msg-%d early verdict:E-%d;\r\n", uid, uid) + strings.Repeat("the rest of a message that was refused early\r\n", 15)
			}
			if t.Bool() {
				body += "second line\r\n"
			}
			body += ".\r\n"
			st := Step{Kind: kBody, Data: []byte(body)}
			if lock {
				st.Need = 354
				st.Wait = -1
			}
			steps = append(steps, st)
			if rcpt > 0 && !xfer {
				mail, rcpt = false, 0
			}
		case "DATA-arg":
			add(kData, "DATA now")
		case "BDAT", "BDAT-last", "BDAT-0-last", "BDAT-0", "BDAT-last-reject", "BDAT-last-early", "BDAT-early":
			last := strings.Contains(sym, "last")
			verdict := "ok"
			if sym == "BDAT-last-reject" {
				verdict = fmt.Sprintf("E-%d", uid)
			}
			payload := fmt.Sprintf("msg-%d verdict:%s;\r\n", uid, verdict)
			if strings.HasSuffix(sym, "-early") {
				payload = fmt.Sprintf("msg-%d early verdict:E-%d;\r\n", uid, uid) + strings.Repeat("the rest of a chunk that was refused early\r\n", 15)
			}
			if strings.Contains(sym, "-0") {
				payload = ""
			}
			cmd := fmt.Sprintf("BDAT %d", len(payload))
			if last {
				cmd += " LAST"
			}
			st := Step{Kind: kBdat, Data: []byte(cmd + "\r\n"), Last: last}
			wt := w
			if last {
				wt = -w
			}
			if payload == "" {
				st.Wait = wt
				steps = append(steps, st)
			} else {
				steps = append(steps, st, Step{Kind: kPayload, Data: []byte(payload), Wait: wt})
			}
			if rcpt > 0 {
				xfer = !last
				if last || strings.HasSuffix(sym, "-early") {
					mail, rcpt, xfer = false, 0, false
				}
			}
		case "BDAT-bad":
			add(kBdat, []string{"BDAT", "BDAT abc", "BDAT 1 2 3", "BDAT -1"}[t.Intn(4)])
		case "RSET":
			add(kRset, "RSET")
			mail, rcpt, xfer = false, 0, false
		case "NOOP":
			add(kNoop, "NOOP")
		case "VRFY":
			add(kVrfy, "VRFY someone")
		case "AUTH":
			add(kAuth, "AUTH PLAIN AGZvbwBiYXI=")
		case "AUTH-ir", "AUTH-2step", "AUTH-cancel", "AUTH-bad64":
			if sym == "AUTH-ir" {
				add(kAuth, "AUTH SIMPLE aW5pdGlhbA==")
			} else {
				add(kAuth, "AUTH SIMPLE")
				contLine := map[string]string{"AUTH-2step": "cmVzcG9uc2U=", "AUTH-cancel": "*", "AUTH-bad64": "!!!not base64!!!"}[sym]
				st := Step{Kind: kAuthResp, Data: []byte(contLine + "\r\n"), Wait: w}
				if lock {
					st.Need = 334
				}
				steps = append(steps, st)
			}
			if lock {
				// a lock-step client that is still being challenged gives up, so that
				// the next command is not taken for a SASL response
				steps = append(steps, Step{Kind: kAuthResp, Data: []byte("*\r\n"), Need: 334, Wait: 1}, Step{Kind: kAuthResp, Data: []byte("*\r\n"), Need: 334, Wait: 1})
			}
		case "STARTTLS":
			add(kStartTLS+100, "STARTTLS") // TLS is not configured in these histories: an ordinary refused command
			steps[len(steps)-1].Kind = kGarbage
		case "QUIT-mid":
			if t.Chance(1, 4) {
				add(kQuit, "QUIT")
			} else {
				add(kNoop, "NOOP")
			}
		case "XYZZY":
			add(kGarbage, "XYZZY plugh")
		case "HELP":
			add(kGarbage, "HELP")
		case "EMPTY":
			add(kGarbage, "")
		case "CTRL-verb":
			c := ctrlOctets[t.Intn(len(ctrlOctets))]
			add(kGarbage, "AB"+c+"D some argument")
		case "CTRL-helo":
			c := ctrlOctets[t.Intn(len(ctrlOctets))]
			add(kHelo, fmt.Sprintf("%s na%sme%d.example", helo, c, uid))
			greeted, mail, rcpt, xfer = true, false, 0, false
		case "CTRL-mail":
			c := ctrlOctets[t.Intn(len(ctrlOctets))]
			add(kMail, fmt.Sprintf("MAIL FROM:<ok-%ss%d@a.example>", c, uid))
			if greeted && !xfer {
				mail, rcpt = true, 0
			}
		case "CTRL-rcpt":
			c := ctrlOctets[t.Intn(len(ctrlOctets))]
			add(kRcpt, fmt.Sprintf("RCPT TO:<ok-%sr%d@b.example>", c, uid))
			if mail && !xfer {
				rcpt++
			}
		case "BINARY":
			b := make([]byte, 1+t.Intn(12))
			for k := range b {
				b[k] = t.Byte()
				if b[k] == '\n' {
					b[k] = 'n'
				}
			}
			add(kGarbage, string(b))
		}
	}
	x.Quit = t.Chance(9, 10)
	if x.Quit {
		steps = append(steps, Step{Kind: kQuit, Data: []byte("QUIT\r\n"), Wait: w})
	}
	switch x.Discipline {
	case 1:
		for i := range steps {
			if i > 0 && i < len(steps)-1 {
				steps[i].Glue = true
			}
		}
	case 2:
		for i := range steps {
			if len(steps[i].Data) > 0 {
				steps[i].Segs = drawSegs(t, len(steps[i].Data), nil)
				steps[i].Gaps = drawGaps(t)
				steps[i].Glue = i < len(steps)-1 && t.Bool()
			}
		}
	}
	cs := ConnScript{Lat: drawLat(t), SrvCaps: drawCaps(t), Steps: steps}
	cs.defaults()
	if t.Chance(1, 12) {
		// a backend that takes longer than ReadTimeout over a message, a sender or a
		// recipient (no WriteTimeout is configured): the client waits, no reply may get lost
		x.SlowCB = 1 + t.Intn(3)
		sc.Srv.ReadTO, sc.Srv.WriteTO = 10*time.Minute, 0
		b := &sc.BE.Conns[0]
		switch x.SlowCB {
		case 1:
			for i := range b.Data {
				b.Data[i].ParkAfter = 11 * time.Minute
			}
		case 2:
			b.ParkMail = 11 * time.Minute
		default:
			b.ParkRcpt = 11 * time.Minute
		}
		cs.AwaitTO = 45 * time.Minute
		cs.IdleEnd = 45 * time.Minute
	}
	if x.SlowCB == 0 && t.Chance(1, 5) {
		// the goroutine that hands a message to the backend is slow to start: whatever the
		// command loop does in the meantime, the backend sees the same order of callbacks
		sc.YieldPark = Dur(1+t.Intn(20)) * 100 * time.Microsecond
		sc.YieldPoints = []string{"deliver.start"}
	}
	sc.Conns = []ConnScript{cs}
	sc.Strata = []string{fmt.Sprintf("discipline%d/lmtp%v", x.Discipline, sc.Srv.LMTP)}
	return x
}

func genC03(t *Tape, tier string) *Scenario {
	sc := &Scenario{Prop: "C03"}
	sc.X = genHistory(t, sc, "C03")
	return sc
}

// merged is the handler-order interleaving of replies and backend callbacks.
type mergedItem struct {
	pos   int // octets the server had written
	reply *Reply
	unit  int // index of the unit the reply belongs to (-1 greeting/surplus)
	ev    *BEvent
}

func mergeHistory(w *Walk, evs []*BEvent) []mergedItem {
	var items []mergedItem
	if w.Greeting != nil {
		items = append(items, mergedItem{pos: w.Greeting.Start, reply: w.Greeting, unit: -1})
	}
	for ui := range w.Units {
		for ri := range w.Units[ui].Replies {
			r := &w.Units[ui].Replies[ri]
			items = append(items, mergedItem{pos: r.Start, reply: r, unit: ui})
		}
	}
	for i := range w.Surplus {
		items = append(items, mergedItem{pos: w.Surplus[i].Start, reply: &w.Surplus[i], unit: -1})
	}
	for _, e := range evs {
		items = append(items, mergedItem{pos: e.SrvWritten, ev: e, unit: -1})
	}
	sort.SliceStable(items, func(i, j int) bool {
		a, b := items[i], items[j]
		if a.pos != b.pos {
			return a.pos < b.pos
		}
		// a callback that began when p octets had been written precedes the reply starting at p
		if (a.ev != nil) != (b.ev != nil) {
			return a.ev != nil
		}
		if a.ev != nil && b.ev != nil {
			return a.ev.Seq < b.ev.Seq
		}
		return false
	})
	return items
}

// unitOfEvent returns the index of the unit whose reply is the first one to
// start at or after the callback began: the command being processed.
func unitOfEvent(w *Walk, e *BEvent) int {
	for ui := range w.Units {
		for _, r := range w.Units[ui].Replies {
			if r.Start >= e.SrvWritten {
				return ui
			}
		}
	}
	return -1
}

func checkC03(sc *Scenario, h *History) []Violation {
	var out []Violation
	x := sc.X.(*histX)
	ch := h.Conns[0]
	replies, _ := parseReplies(ch.S2C.Buf)
	w := walkWire(ch.Sent, replies, sc.Srv.LMTP)
	wit := fmt.Sprintf("cmds=%v lmtp=%v maxrcpt=%d", x.Cmds, sc.Srv.LMTP, sc.Srv.MaxRcpt)
	var evs []*BEvent
	for _, e := range h.Events {
		if e.Conn == 0 {
			evs = append(evs, e)
		}
	}
	// The limit as the backend sees it: between two transaction boundaries it is told
	// about (Reset, a new session, Logout) it never accepts more recipients than the
	// configured maximum - whatever the client did in between (a second MAIL included).
	if sc.Srv.MaxRcpt > 0 {
		n := 0
		for _, e := range evs {
			switch e.Kind {
			case "Reset", "NewSession", "Logout":
				n = 0
			case "Rcpt":
				if e.Done && e.Res == "" && !e.Panicked {
					n++
					if n > sc.Srv.MaxRcpt {
						out = append(out, Violation{Rule: "C03.max-recipients", Detail: fmt.Sprintf("the backend accepted recipient number %d (%s) of a transaction it was never told had ended, MaxRecipients=%d", n, e.Arg, sc.Srv.MaxRcpt), Witness: wit})
						n = -1 << 30
					}
				}
			}
		}
	}
	items := mergeHistory(w, evs)
	v := func(rule, format string, a ...interface{}) {
		out = append(out, Violation{Rule: rule, Detail: fmt.Sprintf(format, a...), Witness: wit})
	}
	flavour := map[string]bool{"HELO": !sc.Srv.LMTP, "EHLO": !sc.Srv.LMTP, "LHLO": sc.Srv.LMTP}
	// reference envelope machine, advanced by the observed replies
	greeted, mail, nrcpt := false, false, 0
	fuzzy := false     // a second MAIL inside a transaction: the statement leaves it open
	needReset := false // a transaction ended and the backend has not seen Reset since its last envelope callback
	resetSeen := false // a Reset happened since the last envelope callback
	endedUnit := -1    // the unit whose reply ended the transaction that needs the Reset
	for _, it := range items {
		if it.ev != nil {
			e := it.ev
			ui := unitOfEvent(w, e)
			verb := ""
			if ui >= 0 {
				verb = w.Units[ui].Verb
			}
			switch e.Kind {
			case "NewSession":
				// I7: the greeting name and TLS state are those of the greeting being processed
				if ui >= 0 {
					// the name is the argument up to the first space
					f := strings.SplitN(strings.TrimLeft(w.Units[ui].Arg, " "), " ", 2)
					if len(f) > 0 && f[0] != "" && e.Hostname != f[0] {
						v("C03.hostname", "inside NewSession Conn.Hostname() was %q, the greeting being processed is %q", e.Hostname, w.Units[ui].Line)
					}
				}
				if e.TLS {
					v("C03.tls-state", "NewSession saw a TLS state on a plaintext connection")
				}
			case "Mail":
				if needReset {
					v("C03.no-reset", "Mail(%s) began although the previous transaction's end was never signalled by Reset", e.Arg)
				}
				resetSeen = false
				if !greeted {
					v("C03.mail-before-greeting", "Mail(%s) was called without a successful greeting of the server's flavour", e.Arg)
				}
				if ui >= 0 && verb != "MAIL" {
					v("C03.attribution", "Mail(%s) began while %q was being processed", e.Arg, verb)
				}
			case "Rcpt":
				if needReset {
					v("C03.no-reset", "Rcpt(%s) began although the previous transaction's end was never signalled by Reset", e.Arg)
				}
				resetSeen = false
				if !mail && !fuzzy {
					v("C03.rcpt-without-mail", "Rcpt(%s) was called without an accepted MAIL in the current transaction", e.Arg)
				}
			case "Data", "LMTPData":
				if needReset {
					v("C03.no-reset", "%s began although the previous transaction's end was never signalled by Reset", e.Kind)
				}
				resetSeen = false
				if nrcpt == 0 && !fuzzy {
					v("C03.data-without-rcpt", "%s was called without an accepted RCPT in the current transaction", e.Kind)
				}
			case "Reset":
				resetSeen = true
				needReset = false
			case "Logout":
				needReset = false
			}
			continue
		}
		if it.unit < 0 {
			continue
		}
		u := &w.Units[it.unit]
		r := it.reply
		first := len(u.Replies) > 0 && r.Start == u.Replies[0].Start
		if !first {
			continue
		}
		if needReset && it.unit != endedUnit && (u.Verb == "MAIL" || u.Verb == "RCPT" || u.Verb == "DATA" || u.Verb == "BDAT") {
			// the end of a transaction has been signalled by the time the next envelope
			// command is answered - whether that command is accepted (then the callback
			// rule above applies as well) or refused
			v("C03.no-reset", "the transaction ended by %q had not been signalled by Reset when the next envelope command %q was answered %s", clip(w.Units[endedUnit].Line, 40), clip(u.Line, 40), r)
			needReset = false
		}
		end := func() {
			// a transaction end: the envelope is gone and a Reset is due before the next envelope callback
			if (mail || nrcpt > 0 || u.Kind == "body" || u.Verb == "BDAT") && !resetSeen {
				needReset = true
				endedUnit = it.unit
			}
			mail, nrcpt, fuzzy = false, 0, false
		}
		evOf := func(kind string) bool {
			for _, e := range evs {
				if (e.Kind == kind || (kind == "Data" && e.Kind == "LMTPData")) && unitOfEvent(w, e) == it.unit {
					return true
				}
			}
			return false
		}
		switch {
		case u.Kind == "body":
			end()
		case u.Verb == "HELO" || u.Verb == "EHLO" || u.Verb == "LHLO":
			if r.Code == 250 {
				if !flavour[u.Verb] {
					v("C03.greeting-flavour", "%q was accepted by a server of the other flavour", u.Line)
				}
				if greeted {
					end()
				}
				greeted = true
				mail, nrcpt, fuzzy = false, 0, false
			}
		case u.Verb == "MAIL":
			if !greeted {
				if r.Code/100 != 5 || evOf("Mail") {
					v("C03.out-of-order", "MAIL without a greeting was answered %s (callback=%v)", r, evOf("Mail"))
				}
			}
			if r.Code == 250 {
				if mail {
					fuzzy = true
				}
				mail, nrcpt = true, 0
			}
		case u.Verb == "RCPT":
			if !mail && !fuzzy {
				if r.Code/100 != 5 || evOf("Rcpt") {
					v("C03.out-of-order", "RCPT without an accepted MAIL was answered %s (callback=%v)", r, evOf("Rcpt"))
				}
			}
			if r.Code/100 == 2 {
				nrcpt++
				if sc.Srv.MaxRcpt > 0 && nrcpt > sc.Srv.MaxRcpt && !fuzzy {
					v("C03.max-recipients", "recipient number %d was accepted with MaxRecipients=%d", nrcpt, sc.Srv.MaxRcpt)
				}
			}
		case u.Verb == "DATA":
			if nrcpt == 0 && !fuzzy {
				if r.Code/100 != 5 {
					v("C03.out-of-order", "DATA without an accepted RCPT was answered %s", r)
				}
			}
		case u.Verb == "BDAT":
			if nrcpt == 0 && !fuzzy {
				if r.Code/100 != 5 || evOf("Data") {
					v("C03.out-of-order", "BDAT without an accepted RCPT was answered %s (callback=%v)", r, evOf("Data"))
				}
			} else if u.HasSize {
				if (u.Last && r.Code != 501 && r.Code != 502) || (r.Code/100 != 2 && r.Code != 501 && r.Code != 502) {
					end() // final response, or a failed chunk
				}
			}
		case u.Verb == "RSET":
			if r.Code == 250 {
				end()
			}
		}
	}
	if len(out) > 3 {
		out = out[:3]
	}
	return out
}

func classifyHist(sc *Scenario, h *History, st *Stats) string {
	x := sc.X.(*histX)
	nd := len(dataEvents(h, 0))
	if nd > 0 {
		st.Probes["history_reaches_data_callback"]++
	}
	if nd > 1 {
		st.Probes["several_messages_in_one_history"]++
	}
	// a stale delivery: a Data call that ended after a later Data call began
	evs := dataEvents(h, 0)
	for i := 0; i+1 < len(evs); i++ {
		if evs[i].Done && evs[i].End > evs[i+1].Begin {
			st.Probes["stale_delivery_overlaps_next_transfer"]++
			st.Faults["stale_delivery_overlapping_next_transaction"]++
			break
		}
	}
	for _, e := range h.Events {
		if e.Kind == "NewSession" && e.Res != "" {
			st.Probes["newsession_failed"]++
		}
		if e.Kind == "SaslNext" && strings.HasPrefix(e.Opts, "challenge") {
			st.Probes["auth_exchange_with_334_inside_history"]++
			break
		}
	}
	for _, e := range evs {
		if e.EarlyReturn {
			st.Probes["backend_returns_early_with_message_unread"]++
			break
		}
	}
	if sc.Srv.MaxMsg > 0 && bytes.Contains(h.Conns[0].S2C.Buf, []byte("\r\n552 ")) {
		st.Probes["chunk_or_message_refused_for_size_inside_history"]++
	}
	if x.SlowCB > 0 {
		for _, e := range h.Events {
			if e.Done && e.End-e.Begin > int64(10*time.Minute) {
				st.Faults["backend_callback_slower_than_ReadTimeout"]++
				break
			}
		}
	}
	if n := deliverParks.Swap(0); n > 0 {
		st.Probes["delivery_goroutine_slow_to_start"]++
	}
	if h.Conns[0].SrvCloseSeq >= 0 && !x.Quit {
		st.Probes["server_closed_without_quit"]++
	}
	if len(x.Cmds) < 3 {
		return ""
	}
	return fmt.Sprintf("%v|%d|%v|%d|%d", x.Cmds, x.Discipline, sc.Srv.LMTP, sc.Srv.MaxRcpt, sc.BE.Flavor)
}

func init() {
	histReal := []string{"smtp.Server.Serve/handleConn", "smtp.Conn command loop and every handler, reset, writeResponse", "BDAT and LMTP delivery goroutines", "dataReader", "lineLimitReader", "net/textproto", "bufio"}
	histStub := []string{"net.Listener (SimListener)", "net.Conn (SimConn)", "Backend/Session (SimBackend: verdicts derived from addresses and message content, slow returns)", "clock (synctest)", "SMTP client (raw driver)"}
	register(&Property{
		ID: "C03", Level: "exploration",
		Rule:     "command histories of 1-25 commands over a 46-symbol abstract alphabet (valid / backend-rejected / malformed / out-of-order forms of HELO EHLO LHLO MAIL RCPT DATA BDAT RSET NOOP VRFY AUTH STARTTLS QUIT and unknown), three quarters drawn from a state-biased walk and one quarter uniformly; SMTP/LMTP, MaxRecipients 0/2, NewSession failures, slow Data returns so that aborted deliveries overlap what follows; lock-step, single write, or arbitrary segmentation. A reference envelope machine is advanced by the observed replies; backend callbacks are placed between replies by the number of octets the server had written when they began. Non-trivial: >= 3 commands; distinct by (symbol sequence, discipline, mode, limits, backend flavour). Messages the backend refuses early with most of the message or chunk unread (DATA-early, BDAT-early, BDAT-last-early); a stratum with a Data/Mail/Rcpt callback slower than ReadTimeout. The Reset that signals a transaction end must precede the answer to the next command. In a fifth of the histories the delivery goroutines (chunked transfer, LMTP DATA) park at their first statement (yield point deliver.start) for 0.1-2 ms.",
		Gen:      genC03,
		Check:    checkC03,
		Classify: classifyHist,
		Sweep: func(tier string) []map[string]int {
			var out []map[string]int
			reps := 2000
			if tier == "thorough" {
				reps = 100000
			}
			for i := 0; i < reps; i++ {
				out = append(out, map[string]int{"discipline": i % 3})
			}
			return out
		},
		Real: histReal, Stub: histStub,
		Assumptions: []string{"a second MAIL inside a transaction and the placement of VRFY/NOOP are not judged", "'signalled by Reset' is judged as: at least one Reset between a transaction end and the next envelope callback, and before the next MAIL/RCPT/DATA/BDAT is answered (other commands may be answered first)"},
		Required:    []string{"delivery_goroutine_slow_to_start", "stale_delivery_overlaps_next_transfer", "newsession_failed", "several_messages_in_one_history", "auth_exchange_with_334_inside_history", "backend_callback_slower_than_ReadTimeout", "backend_returns_early_with_message_unread", "chunk_or_message_refused_for_size_inside_history"},
		Instr:       true,
		QuickRuns:   250000, ThoroughRuns: 6000000,
	})
}
