package sim

import (
	"fmt"
	"time"
)

// Common generator helpers (swarm configuration, command lines, segmentation
// and backend read plans).

type cfgOpts struct {
	allowLimit bool // MaxMsg may be small
	allowTLS   bool
	noLMTP     bool
	forceLMTP  bool
}

// drawCfg draws the swarm configuration. Knobs a property does not mention
// are drawn from values under which it is supposed to hold regardless.
func drawCfg(t *Tape, o cfgOpts) ServerCfg {
	var c ServerCfg
	if o.forceLMTP {
		c.LMTP = true
	} else if !o.noLMTP {
		c.LMTP = t.Chance(1, 3)
	}
	c.MaxLine = []int{2000, 200, 64, 0}[t.Pick(4, 2, 2, 1)]
	c.MaxRcpt = []int{0, 2}[t.Pick(3, 1)]
	c.ReadTO = []Dur{0, 10 * time.Minute}[t.Pick(2, 1)]
	c.WriteTO = []Dur{0, 10 * time.Minute}[t.Pick(2, 1)]
	c.Debug = t.Chance(1, 4)
	if t.Chance(1, 2) {
		c.UTF8, c.BinaryMIME, c.DSN, c.RRVS = t.Bool(), t.Bool(), t.Bool(), t.Bool()
	}
	if o.allowTLS && t.Chance(1, 8) {
		// the whole conversation runs inside implicit TLS: another reader stack
		// (crypto/tls records) between the transport and the protocol reader
		c.TLS = tlsImplicit
	}
	return c
}

func heloLine(cfg ServerCfg) []byte {
	if cfg.LMTP {
		return []byte("LHLO client.example\r\n")
	}
	return []byte("EHLO client.example\r\n")
}

func line(format string, a ...interface{}) []byte {
	return []byte(fmt.Sprintf(format, a...) + "\r\n")
}

// drawSegs draws a segmentation plan for n octets. special lists offsets that
// deserve a boundary (e.g. inside an end marker).
func drawSegs(t *Tape, n int, special []int) []int {
	if n <= 1 {
		return nil
	}
	switch t.Pick(4, 3, 2, 3, 1, 2) {
	case 0:
		return nil // one segment
	case 1: // two segments, boundary anywhere or at a special offset
		if len(special) > 0 && t.Bool() {
			k := special[t.Intn(len(special))]
			if k > 0 && k < n {
				return []int{k, n}
			}
		}
		return []int{1 + t.Intn(n-1), n}
	case 2:
		return []int{1} // byte by byte
	case 3: // a few random sizes, cycled
		k := 1 + t.Intn(5)
		out := make([]int, k)
		for i := range out {
			out[i] = 1 + t.Intn(minInt(n, 40))
		}
		return out
	case 4: // around the 4096-octet buffer size
		return []int{4094 + t.Intn(5)}
	default: // boundaries at several special offsets
		if len(special) == 0 {
			return []int{1 + t.Intn(n-1), n}
		}
		var out []int
		prev := 0
		for _, s := range special {
			if s > prev && s < n && t.Bool() {
				out = append(out, s-prev)
				prev = s
			}
		}
		out = append(out, n)
		return out
	}
}

func drawGaps(t *Tape) []Dur {
	switch t.Pick(5, 2, 1) {
	case 0:
		return nil
	case 1:
		return []Dur{t.SmallDur()}
	default:
		return []Dur{t.SmallDur(), t.SmallDur(), t.SmallDur()}
	}
}

func drawReadSizes(t *Tape) []int {
	choices := []int{512, 1, 2, 3, 7, 64, 4096}
	switch t.Pick(3, 3, 2) {
	case 0:
		return []int{choices[t.Pick(4, 3, 1, 1, 1, 1, 2)]}
	case 1:
		k := 2 + t.Intn(3)
		out := make([]int, k)
		for i := range out {
			out[i] = choices[t.Intn(len(choices))]
		}
		return out
	default:
		k := 1 + t.Intn(4)
		out := make([]int, k)
		for i := range out {
			out[i] = 1 + t.Intn(300)
		}
		return out
	}
}

func drawCaps(t *Tape) []int {
	switch t.Pick(6, 1, 1, 1) {
	case 0:
		return nil
	case 1:
		return []int{1}
	case 2:
		return []int{1 + t.Intn(7), 1 + t.Intn(50)}
	default:
		return []int{1 + t.Intn(4096)}
	}
}

func drawLat(t *Tape) []Dur {
	switch t.Pick(4, 2, 1) {
	case 0:
		return nil
	case 1:
		return []Dur{Dur(1+t.Intn(200)) * time.Microsecond}
	default:
		return []Dur{Dur(t.Intn(3)) * time.Millisecond, Dur(1+t.Intn(100)) * time.Microsecond, 0}
	}
}

func drawParks(t *Tape) []Dur {
	switch t.Pick(5, 2, 1) {
	case 0:
		return nil
	case 1:
		return []Dur{0, 0, t.SmallDur()}
	default:
		return []Dur{t.SmallDur(), t.SmallDur()}
	}
}

func minInt(a, b int) int {
	if a < b {
		return a
	}
	return b
}

func maxInt(a, b int) int {
	if a > b {
		return a
	}
	return b
}

// defaults fills the bounds every connection script needs.
func (c *ConnScript) defaults() {
	if c.AwaitTO == 0 {
		c.AwaitTO = 5 * time.Minute
	}
	if c.IdleEnd == 0 {
		c.IdleEnd = 5 * time.Minute
	}
	if c.Cut == 0 && c.CutKind == cutNone {
		c.Cut = -1
	}
	// A step cut into very many segments must not take longer to send than the
	// server's read timeout allows (that would be a fault, and the strata that
	// want it inject it explicitly): drop the per-segment gaps in that case.
	for i := range c.Steps {
		st := &c.Steps[i]
		if len(st.Gaps) == 0 || len(st.Segs) == 0 {
			continue
		}
		if len(st.Segs) == 2 && st.Segs[1] >= len(st.Data) {
			continue // one cut, two segments: a pause somebody asked for
		}
		minSeg := 1 << 30
		for _, sz := range st.Segs {
			if sz > 0 && sz < minSeg {
				minSeg = sz
			}
		}
		var maxGap Dur
		for _, g := range st.Gaps {
			if g > maxGap {
				maxGap = g
			}
		}
		nseg := len(st.Data)/minSeg + 1
		if nseg > 20 && Dur(nseg)*maxGap > 3*time.Minute {
			st.Gaps = nil
		}
	}
}

// classOf maps an octet to its DATA-relevant class, for fingerprints.
func classOf(c byte) byte {
	switch c {
	case '.', '\r', '\n':
		return c
	}
	return 'x'
}

func classString(b []byte, max int) string {
	out := make([]byte, 0, minInt(len(b), max))
	for i := 0; i < len(b) && i < max; i++ {
		out = append(out, classOf(b[i]))
	}
	return string(out)
}

// dataEvents returns the Data/LMTPData callbacks of a connection in order.
func dataEvents(h *History, conn int) []*BEvent {
	var out []*BEvent
	for _, e := range h.Events {
		if e.Conn == conn && (e.Kind == "Data" || e.Kind == "LMTPData") {
			out = append(out, e)
		}
	}
	return out
}

func eventsOf(h *History, conn int, kind string) []*BEvent {
	var out []*BEvent
	for _, e := range h.Events {
		if e.Conn == conn && e.Kind == kind {
			out = append(out, e)
		}
	}
	return out
}
