package sim

import (
	"fmt"
	"strings"
	"time"
)

// C13 - LMTP returns one status per accepted recipient, in order, correctly
// attributed.

type c13Expect struct {
	Rcpt  string
	Code  int    // expected reply code; 0 = any non-2xx (after a panic)
	Token string // unique text the reply must contain ("" = not checked)
}

type c13X struct {
	Rcpts         []string // RCPT commands in order (accepted and rejected)
	Accepted      []string
	ViaBdat       bool
	Chunks        []int
	Flavor        int
	Panic         bool
	PanicFinalDue bool // the final response is due when the panic surfaces
	OutOfContract bool
	EarlyFail     int         // -1 none, else the backend returns an error after reading this many octets (< message size)
	EarlyOK       bool        // the early return is a success (nil)
	FailChunk     int         // chunk whose copy fails (-1 none)
	Final         []c13Expect // expected final replies (nil if no final response is due)
	Expect        []string    // expected codes/classes of all replies after the RCPTs up to (excluding) the finals, e.g. "354", "250", "E" (error, single)
	After         []string    // expected after the finals
	Backpressure  bool        // no buffering in the network: a Write returns when the peer has read it; long message, backend done early
	MidRefused    int         // a BDAT with a bad LAST token, refused with its payload discarded, after this many RCPT commands of the judged transaction (-1 = none): the envelope goes on
	Prelude       int         // an earlier transaction on the same connection, with other recipients: 0 none, 1 RSET after the recipients, 2 first BDAT refused for its size, 3 BDAT with a bad LAST token then RSET, 4 completed with DATA, 5 completed with BDAT LAST, 6 a chunk then RSET with the aborted delivery panicking late
	Stall         bool        // DATA: the client falls silent inside the message until ReadTimeout strikes; it keeps listening
	Pre           int
}

func statusVerdict(t *Tape, tag string) (Verdict, int, string) {
	switch t.Pick(2, 2, 2, 1) {
	case 0:
		return Verdict{}, 250, "OK: queued"
	case 1:
		return Verdict{Kind: vSMTP, Code: 550, Enh: [3]int{5, 1, 1}, Msg: "st-" + tag}, 550, "st-" + tag
	case 2:
		return Verdict{Kind: vSMTP, Code: 452, Enh: [3]int{4, 2, 2}, Msg: "st-" + tag}, 452, "st-" + tag
	default:
		return Verdict{Kind: vPlain, Msg: "st-" + tag}, 554, "st-" + tag
	}
}

func genC13(t *Tape, tier string) *Scenario {
	sc := &Scenario{Prop: "C13"}
	sc.Srv = drawCfg(t, cfgOpts{forceLMTP: true})
	sc.Srv.MaxRcpt = 0
	sc.Srv.MaxMsg = 0
	x := &c13X{EarlyFail: -1, FailChunk: -1}
	sc.X = x
	x.Flavor = []int{beLMTP, bePlain}[t.Named("c13flavor", 2)]
	sc.BE.Flavor = x.Flavor
	addrs := []string{"ok-a@b.example", "ok-b@b.example"}
	n := 1 + t.Intn(4)
	for i := 0; i < n; i++ {
		if t.Chance(1, 5) {
			x.Rcpts = append(x.Rcpts, fmt.Sprintf("r5-x%d@b.example", i))
		}
		a := addrs[t.Intn(2)]
		x.Rcpts = append(x.Rcpts, a)
		x.Accepted = append(x.Accepted, a)
	}
	x.ViaBdat = t.Named("c13bdat", 2) == 1
	msg := mkMessage(20 + t.Intn(100))
	if !x.ViaBdat && t.Chance(1, 8) {
		// flow control: nothing is buffered between the two ends, the message is long, and the
		// backend has its verdicts long before the client has finished sending - the server
		// must go on taking the message while its replies wait to be read
		x.Backpressure = true
		msg = mkMessage(9000 + t.Intn(3000))
	}
	if x.ViaBdat {
		k := 1 + t.Intn(3)
		rest := len(msg)
		for i := 1; i < k; i++ {
			c := t.Intn(rest + 1)
			x.Chunks = append(x.Chunks, c)
			rest -= c
		}
		x.Chunks = append(x.Chunks, rest)
		if t.Chance(1, 4) {
			x.Chunks = append(x.Chunks, 0) // LAST on an empty chunk
		}
	}

	// backend plan
	dp := DataPlan{ReadSizes: drawReadSizes(t), ParkReads: drawParks(t), ParkBefore: t.SmallDur(), ParkAfter: t.SmallDur()}
	retCode, retTok := 250, "OK: queued"
	switch t.Pick(3, 2, 1) {
	case 1:
		dp.V = Verdict{Kind: vSMTP, Code: 554, Enh: [3]int{5, 6, 0}, Msg: "ret-err"}
		retCode, retTok = 554, "ret-err"
	case 2:
		dp.V = Verdict{Kind: vPlain, Msg: "ret-plain"}
		retCode, retTok = 554, "ret-plain"
	}
	mode := t.Named("c13mode", 4) // 0 normal, 1 panic, 2 early failure, 3 out of contract
	if x.Flavor == bePlain && mode == 3 {
		mode = 0
	}
	if x.Backpressure {
		mode = 2
	}
	// per-occurrence statuses
	final := make([]c13Expect, len(x.Accepted))
	for i, a := range x.Accepted {
		final[i] = c13Expect{Rcpt: a, Code: retCode, Token: retTok}
	}
	if x.Flavor == beLMTP {
		// choose a subset of occurrences to get an explicit status; statuses for one
		// address are consumed in call order by its occurrences in RCPT order
		occ := map[string][]int{}
		for i, a := range x.Accepted {
			occ[a] = append(occ[a], i)
		}
		type call struct {
			addr string
			st   StatusCall
			code int
			tok  string
		}
		var calls []call
		for _, a := range addrs {
			k := 0
			for range occ[a] {
				if t.Chance(3, 5) {
					v, code, tok := statusVerdict(t, fmt.Sprintf("%s-%d", a[3:4], k))
					calls = append(calls, call{a, StatusCall{Addr: a, V: v, When: t.Intn(3), Park: t.SmallDur()}, code, tok})
					k++
				}
			}
		}
		// shuffle the call order
		for i := len(calls) - 1; i > 0; i-- {
			j := t.Intn(i + 1)
			calls[i], calls[j] = calls[j], calls[i]
		}
		// execution order: by When, then list order
		var ordered []call
		for w := 0; w < 3; w++ {
			for _, c := range calls {
				if c.st.When == w {
					ordered = append(ordered, c)
				}
			}
		}
		next := map[string]int{}
		for _, c := range ordered {
			dp.Statuses = append(dp.Statuses, c.st)
			idx := occ[c.addr][next[c.addr]]
			next[c.addr]++
			final[idx] = c13Expect{Rcpt: c.addr, Code: c.code, Token: c.tok}
		}
		if mode == 3 {
			x.OutOfContract = true
			switch t.Intn(2) {
			case 0: // one status too many for an address
				a := x.Accepted[0]
				dp.Statuses = append(dp.Statuses, StatusCall{Addr: a, V: Verdict{}, When: 2}, StatusCall{Addr: a, V: Verdict{}, When: 2}, StatusCall{Addr: a, V: Verdict{}, When: 2}, StatusCall{Addr: a, V: Verdict{}, When: 2}, StatusCall{Addr: a, V: Verdict{}, When: 2})
			default: // a status for an address that is no recipient
				dp.Statuses = append(dp.Statuses, StatusCall{Addr: "nobody@b.example", V: Verdict{}, When: t.Intn(3)})
			}
		}
	}
	if mode == 1 {
		x.Panic = true
		if t.Bool() {
			sc.LogPark = Dur(1+t.Intn(20)) * 100 * time.Microsecond // the panic is logged to a slow sink
		}
		dp.V = Verdict{Kind: vPanic, Msg: "in LMTPData"}
		dp.PanicWhen = t.Intn(4)
		// statuses scheduled at or after the panic point are never set
		set := map[string]int{}
		for i := range final {
			final[i] = c13Expect{Rcpt: x.Accepted[i], Code: 0}
		}
		occ := map[string][]int{}
		for i, a := range x.Accepted {
			occ[a] = append(occ[a], i)
		}
		for _, st := range dp.Statuses {
			if (dp.PanicWhen == 3 && st.When == 0) || (dp.PanicWhen != 3 && st.When < dp.PanicWhen) || dp.PanicWhen == 2 {
				idx := occ[st.Addr][set[st.Addr]]
				set[st.Addr]++
				code, tok := 250, "OK: queued"
				switch st.V.Kind {
				case vSMTP:
					code, tok = st.V.Code, st.V.Msg
				case vPlain:
					code, tok = 554, st.V.Msg
				}
				final[idx] = c13Expect{Rcpt: st.Addr, Code: code, Token: tok}
			}
		}
	}
	if mode == 2 && len(msg) > 2 {
		x.EarlyFail = t.Intn(len(msg) - 1)
		if x.Backpressure {
			x.EarlyFail = t.Intn(2000)
		}
		dp.ReadMode = readK
		dp.ReadK = x.EarlyFail
		if dp.V.Kind == vOK && x.Flavor == beLMTP && t.Bool() {
			// a per-recipient backend that returns nil early: it decided from the
			// envelope and the first octets (LMTPData does not require r to be consumed)
			x.EarlyOK = true
		} else if dp.V.Kind == vOK {
			dp.V = Verdict{Kind: vSMTP, Code: 554, Enh: [3]int{5, 6, 0}, Msg: "ret-err"}
			retCode, retTok = 554, "ret-err"
		}
		// statuses are still set before the early return; the other recipients get the return value
		// recompute the defaults with the (possibly changed) return value
		explicit := map[int]bool{}
		{
			occ := map[string][]int{}
			for i, a := range x.Accepted {
				occ[a] = append(occ[a], i)
			}
			next := map[string]int{}
			for _, st := range dp.Statuses {
				if idxs := occ[st.Addr]; next[st.Addr] < len(idxs) {
					explicit[idxs[next[st.Addr]]] = true
					next[st.Addr]++
				}
			}
		}
		for i := range final {
			if !explicit[i] {
				final[i] = c13Expect{Rcpt: x.Accepted[i], Code: retCode, Token: retTok}
			}
		}
	}
	if x.Panic {
		// Is the final response due when the panic surfaces? With DATA always; with
		// BDAT only if the command loop is handling the LAST chunk at that moment:
		// a panic after the message was read happens after LAST, a panic before
		// reading surfaces at the first chunk that hands over an octet (or at LAST
		// if all chunks before it are empty).
		x.PanicFinalDue = true
		if x.ViaBdat && (dp.PanicWhen == 0 || dp.PanicWhen == 3) {
			failing := len(x.Chunks) - 1
			for i, c := range x.Chunks {
				if c > 0 {
					failing = i
					break
				}
			}
			x.PanicFinalDue = failing == len(x.Chunks)-1
		}
	}
	sc.BE.Conns = []ConnBackendPlan{{Data: []DataPlan{dp}}}

	lock := t.Bool()
	if x.Backpressure {
		lock = true // a client that writes while replies wait to be read would block itself
	}
	w := func() int {
		if lock {
			return 1
		}
		return 0
	}
	steps := []Step{{Kind: kGreetWait, Wait: 1}, {Kind: kHelo, Data: heloLine(sc.Srv), Wait: 1}}
	x.Pre = 2
	// an earlier transaction on the same connection whose recipient list differs:
	// nothing of it may show in the statuses of the one that is judged
	x.Prelude = t.Named("c13prelude", 7)
	if x.Backpressure {
		x.Prelude = 0 // (the preludes count on buffers and on a size limit)
	}
	if x.Prelude > 0 {
		steps = append(steps, Step{Kind: kMail, Data: line("MAIL FROM:<ok-early@a.example>"), Wait: 1})
		x.Pre++
		k := 1 + t.Intn(3)
		for i := 0; i < k; i++ {
			steps = append(steps, Step{Kind: kRcpt, Data: line("RCPT TO:<%s>", []string{"ok-b@b.example", "ok-a@b.example", "ok-p@b.example"}[t.Intn(3)]), Wait: 1})
			x.Pre++
		}
		switch x.Prelude {
		case 1:
			steps = append(steps, Step{Kind: kRset, Data: []byte("RSET\r\n"), Wait: 1})
			x.Pre++
		case 2:
			sc.Srv.MaxMsg = 1000
			steps = append(steps, Step{Kind: kBdat, Data: []byte("BDAT 1500 LAST\r\n"), Glue: true},
				Step{Kind: kPayload, Data: mkMessage(1500), Wait: 1})
			x.Pre++
		case 3:
			steps = append(steps, Step{Kind: kBdat, Data: []byte("BDAT 10 LAS\r\n"), Glue: true},
				Step{Kind: kPayload, Data: mkMessage(10), Wait: 1},
				Step{Kind: kRset, Data: []byte("RSET\r\n"), Wait: 1})
			x.Pre += 2
		case 4:
			steps = append(steps, Step{Kind: kData, Data: []byte("DATA\r\n"), Wait: 1},
				Step{Kind: kBody, Data: []byte("early message\r\n.\r\n"), Need: 354, Wait: -1})
			x.Pre += 1 + k
			sc.BE.Conns[0].Data = append([]DataPlan{{}}, sc.BE.Conns[0].Data...)
		case 5:
			steps = append(steps, Step{Kind: kBdat, Data: []byte("BDAT 15 LAST\r\n"), Glue: true, Last: true},
				Step{Kind: kPayload, Data: []byte("early message\r\n"), Wait: -1})
			x.Pre += k
			sc.BE.Conns[0].Data = append([]DataPlan{{}}, sc.BE.Conns[0].Data...)
		case 6:
			// a chunk, then RSET: the aborted delivery returns late - inside the transaction that
			// is judged - and panics on its way out; that is the old transaction's business alone
			steps = append(steps, Step{Kind: kBdat, Data: []byte("BDAT 10\r\n"), Glue: true},
				Step{Kind: kPayload, Data: []byte("abandoned\n"), Wait: 1},
				Step{Kind: kRset, Data: []byte("RSET\r\n"), Wait: 1})
			x.Pre += 2
			sc.BE.Conns[0].Data = append([]DataPlan{{V: Verdict{Kind: vPanic, Msg: "in a delivery that was aborted"}, PanicWhen: 2, ParkAfter: Dur(t.Intn(10)) * 300 * time.Microsecond}}, sc.BE.Conns[0].Data...)
		}
	}
	steps = append(steps, Step{Kind: kMail, Data: line("MAIL FROM:<ok-s@a.example>"), Wait: 1})
	x.MidRefused = -1
	if t.Chance(1, 5) && !x.Backpressure {
		x.MidRefused = 1 + t.Intn(len(x.Rcpts))
	}
	for i, r := range x.Rcpts {
		steps = append(steps, Step{Kind: kRcpt, Data: line("RCPT TO:<%s>", r), Wait: 1})
		if i+1 == x.MidRefused {
			// refused for its syntax (or for want of an accepted recipient): one reply, the
			// payload is discarded, and the transaction is the same as before
			steps = append(steps, Step{Kind: kBdat, Data: []byte([]string{"BDAT 10 LAS\r\n", "BDAT 10 FIRST\r\n", "BDAT 10 LASTLAST\r\n"}[t.Intn(3)]), Glue: true},
				Step{Kind: kPayload, Data: mkMessage(10), Wait: 1})
			x.Pre++
		}
	}
	x.Pre += 1 + len(x.Rcpts)
	x.Final = final
	if !x.ViaBdat {
		stream := append(append([]byte{}, msg...), ".\r\n"...)
		steps = append(steps, Step{Kind: kData, Data: []byte("DATA\r\n"), Wait: 1},
			Step{Kind: kBody, Data: stream, Need: 354, Segs: drawSegs(t, len(stream), nil), Wait: -1 * w()})
		x.Expect = []string{"354"}
		if x.Backpressure {
			steps[len(steps)-1].Segs = nil
		}
		if mode == 0 && t.Chance(1, 8) {
			// fault stratum: the message never ends (the client falls silent past ReadTimeout but
			// keeps listening): every accepted recipient still gets its reply - none of them
			// positive unless the backend said so itself - and then the connection ends
			x.Stall = true
			sc.Srv.ReadTO = 10 * time.Minute
			b := &steps[len(steps)-1]
			b.Data = stream[:1+t.Intn(len(stream)-4)]
			b.Segs, b.Wait = nil, -1
			lock = true
		}
	} else {
		off, sum := 0, 0
		failed := false
		for i, c := range x.Chunks {
			last := i == len(x.Chunks)-1
			cmd := fmt.Sprintf("BDAT %d", c)
			if last {
				cmd += " LAST"
			}
			steps = append(steps, Step{Kind: kBdat, Data: []byte(cmd + "\r\n"), Glue: c > 0 && t.Bool(), Last: last})
			wt := w()
			if last {
				wt = -wt
			}
			if c > 0 {
				steps = append(steps, Step{Kind: kPayload, Data: msg[off : off+c], Segs: drawSegs(t, c, nil), Wait: wt})
			} else {
				steps[len(steps)-1].Wait = wt
			}
			off += c
			sum += c
			switch {
			case failed:
				x.Expect = append(x.Expect, "5")
			case x.EarlyFail >= 0 && sum > x.EarlyFail && x.FailChunk < 0:
				x.FailChunk = i
				if last {
					// the final response is still due: one reply per recipient
				} else {
					x.Expect = append(x.Expect, "E")
					failed = true
					x.Final = nil
				}
			case !last:
				x.Expect = append(x.Expect, "250")
			}
		}
	}
	steps = append(steps, Step{Kind: kMarker, Data: []byte("NOOP\r\n"), Wait: w()}, Step{Kind: kQuit, Data: []byte("QUIT\r\n"), Wait: w()})
	x.After = []string{"250", "221"}
	if x.Panic {
		x.After = nil // the connection ends
	}
	cs := ConnScript{Lat: drawLat(t), SrvCaps: drawCaps(t), Steps: steps}
	if x.Backpressure {
		cs.SrvFaults.Rendezvous = true
		cs.SrvCaps = nil
		sc.Srv.ReadTO, sc.Srv.WriteTO, sc.Srv.MaxMsg = 0, 0, 0
	}
	cs.defaults()
	if x.Stall {
		cs.AwaitTO = 15 * time.Minute // the client outwaits the server's ReadTimeout
	}
	sc.Conns = []ConnScript{cs}
	sc.Strata = []string{fmt.Sprintf("flavor%d/bdat%v/mode%d", x.Flavor, x.ViaBdat, mode)}
	return sc
}

func checkC13(sc *Scenario, h *History) []Violation {
	var out []Violation
	x := sc.X.(*c13X)
	ch := h.Conns[0]
	wit := fmt.Sprintf("rcpts=%v bdat=%v chunks=%v flavor=%d panic=%v earlyfail=%d/%d ooc=%v prelude=%d", x.Rcpts, x.ViaBdat, x.Chunks, x.Flavor, x.Panic, x.EarlyFail, x.FailChunk, x.OutOfContract, x.Prelude)
	if x.MidRefused >= 0 {
		wit += fmt.Sprintf(" refused-bdat-after-rcpt=%d", x.MidRefused)
	}
	if h.BubblePanic != "" && h.Leaked == 0 {
		out = append(out, Violation{Rule: "C13.deadlock", Detail: h.BubblePanic, Witness: wit})
	}
	if h.Leaked > 0 {
		out = append(out, Violation{Rule: "C13.deadlock", Detail: fmt.Sprintf("%d goroutines are still blocked one fake hour later:\n%s", h.Leaked, clip(h.LeakDump, 2500)), Witness: wit})
	}
	if x.OutOfContract {
		return out // only "no deadlock, no crash" is judged
	}
	if x.Stall {
		replies, _ := parseReplies(ch.S2C.Buf)
		fin := replies[minInt(len(replies), x.Pre+1):]
		var codes []string
		for _, r := range fin {
			codes = append(codes, fmt.Sprint(r.Code))
		}
		if len(fin) < len(x.Accepted) {
			out = append(out, Violation{Rule: "C13.reply-count", Detail: fmt.Sprintf("the message never ended (read timeout inside DATA): %d accepted recipients, %d replies: %s", len(x.Accepted), len(fin), strings.Join(codes, " ")), Witness: wit})
			return out
		}
		for i := range x.Accepted {
			if fin[i].Code/100 == 2 && !(i < len(x.Final) && x.Final[i].Code == 250 && x.Final[i].Token != "OK: queued") && !explicitOK(sc, x.Accepted, i) {
				out = append(out, Violation{Rule: "C13.incomplete-positive", Detail: fmt.Sprintf("the message never ended but recipient %d (<%s>) got %s", i, x.Accepted[i], fin[i]), Witness: wit})
				break
			}
		}
		if ch.SrvCloseSeq < 0 {
			out = append(out, Violation{Rule: "C13.panic-open", Detail: "the connection was not closed after the message could not be read to its end", Witness: wit})
		}
		return out
	}
	replies, _ := parseReplies(ch.S2C.Buf)
	var codes []string
	for _, r := range replies {
		codes = append(codes, fmt.Sprint(r.Code))
	}
	want := x.Pre + len(x.Expect) + len(x.Final) + len(x.After)
	if x.Panic {
		// Narrow relaxation after a backend panic: the exchange follows the
		// expected sequence until a non-2xx reply ends it (the panic surfaces at
		// whichever command was feeding the backend); recipients without an
		// explicit status never get a positive reply; explicit statuses are
		// reported as set; the connection is closed by the server.
		if len(replies) < x.Pre || len(replies) > want {
			out = append(out, Violation{Rule: "C13.reply-count", Detail: fmt.Sprintf("backend panic: expected between %d and %d replies, got %d: %s", x.Pre, want, len(replies), strings.Join(codes, " ")), Witness: wit})
			return out
		}
		for i := x.Pre; i < len(replies); i++ {
			r := replies[i]
			k := i - x.Pre
			lastReply := i == len(replies)-1
			if k < len(x.Expect) {
				if fmt.Sprint(r.Code) == x.Expect[k] {
					continue
				}
				if r.Code/100 != 2 && lastReply {
					break
				}
				out = append(out, Violation{Rule: "C13.reply", Detail: fmt.Sprintf("backend panic: reply %d after the recipients: expected %s or a closing error, got %s", k, x.Expect[k], r), Witness: wit})
				return out
			}
			e := x.Final[k-len(x.Expect)]
			text := r.Last()
			if enhancedClass(text) != 0 {
				if j := strings.IndexByte(text, ' '); j >= 0 {
					text = text[j+1:]
				}
			}
			if e.Code != 0 && strings.HasPrefix(text, "<"+e.Rcpt+"> ") {
				if r.Code != e.Code {
					out = append(out, Violation{Rule: "C13.attribution", Detail: fmt.Sprintf("backend panic: final reply %d (<%s>): status %d was set before the panic, got %q", k-len(x.Expect), e.Rcpt, e.Code, r.String()), Witness: wit})
				}
				continue
			}
			if r.Code/100 == 2 {
				out = append(out, Violation{Rule: "C13.panic-positive", Detail: fmt.Sprintf("after a backend panic a recipient without a status got a positive reply %s", r), Witness: wit})
			}
		}
		if ch.SrvCloseSeq < 0 {
			out = append(out, Violation{Rule: "C13.panic-open", Detail: "the connection was not closed after a backend panic", Witness: wit})
		}
		// statuses the backend set explicitly before it panicked are not lost
		if x.PanicFinalDue && x.Flavor == beLMTP {
			base := x.Pre + len(x.Expect)
			for i, e := range x.Final {
				if e.Code == 0 {
					continue
				}
				if base+i >= len(replies) {
					out = append(out, Violation{Rule: "C13.panic-status-lost", Detail: fmt.Sprintf("the backend set status %d for recipient %d (<%s>) before it panicked, but the final response has only %d replies: %s", e.Code, i, e.Rcpt, len(replies)-base, strings.Join(codes[minInt(base, len(codes)):], " ")), Witness: wit})
					break
				}
				r := replies[base+i]
				if r.Code != e.Code || !strings.Contains(r.Last(), "<"+e.Rcpt+"> ") {
					out = append(out, Violation{Rule: "C13.panic-status-lost", Detail: fmt.Sprintf("the backend set status %d for recipient %d (<%s>) before it panicked, reply %d is %q", e.Code, i, e.Rcpt, i, r.String()), Witness: wit})
					break
				}
			}
		}
		return out
	}
	if len(replies) != want {
		rule := "C13.reply-count"
		out = append(out, Violation{Rule: rule, Detail: fmt.Sprintf("expected %d replies (%d through RCPT, then %v, %d final, then %v), got %d: %s", want, x.Pre, x.Expect, len(x.Final), x.After, len(replies), strings.Join(codes, " ")), Witness: wit})
		return out
	}
	for i, e := range x.Expect {
		r := replies[x.Pre+i]
		ok := fmt.Sprint(r.Code) == e
		switch e {
		case "5":
			ok = r.Code/100 == 5
		case "E":
			ok = r.Code/100 == 5 || r.Code/100 == 4
		}
		if !ok {
			out = append(out, Violation{Rule: "C13.reply", Detail: fmt.Sprintf("reply %d after the recipients: expected %s, got %s", i, e, r), Witness: wit})
			return out
		}
	}
	base := x.Pre + len(x.Expect)
	for i, e := range x.Final {
		r := replies[base+i]
		text := r.Last()
		if enhancedClass(text) != 0 {
			if j := strings.IndexByte(text, ' '); j >= 0 {
				text = text[j+1:]
			}
		}
		if !strings.HasPrefix(text, "<"+e.Rcpt+"> ") {
			out = append(out, Violation{Rule: "C13.order", Detail: fmt.Sprintf("final reply %d should name <%s>, got %q", i, e.Rcpt, r.String()), Witness: wit})
			return out
		}
		if e.Code == 0 {
			if r.Code/100 == 2 {
				out = append(out, Violation{Rule: "C13.panic-positive", Detail: fmt.Sprintf("after a backend panic recipient %d (<%s>, no status set) got a positive reply %s", i, e.Rcpt, r), Witness: wit})
			}
			continue
		}
		if r.Code != e.Code || (e.Token != "" && !strings.Contains(text, e.Token)) {
			out = append(out, Violation{Rule: "C13.attribution", Detail: fmt.Sprintf("final reply %d (<%s>): expected %d %q, got %q", i, e.Rcpt, e.Code, e.Token, r.String()), Witness: wit})
			return out
		}
	}
	for i, e := range x.After {
		r := replies[base+len(x.Final)+i]
		if fmt.Sprint(r.Code) != e {
			out = append(out, Violation{Rule: "C13.after", Detail: fmt.Sprintf("after the final response expected %s, got %s", e, r), Witness: wit})
		}
	}
	if x.Panic && ch.SrvCloseSeq < 0 {
		out = append(out, Violation{Rule: "C13.panic-open", Detail: "the connection was not closed after a backend panic", Witness: wit})
	}
	return out
}

// explicitOK tells whether the backend's plan sets an explicit success status for the
// i-th accepted recipient (statuses of one address go to its occurrences in order).
func explicitOK(sc *Scenario, accepted []string, i int) bool {
	dp := sc.BE.Conns[0].Data[len(sc.BE.Conns[0].Data)-1]
	occ := 0
	for k := 0; k < i; k++ {
		if accepted[k] == accepted[i] {
			occ++
		}
	}
	n := 0
	for _, st := range dp.Statuses {
		if st.Addr == accepted[i] {
			if n == occ {
				return st.V.Kind == vOK
			}
			n++
		}
	}
	return false
}

func classifyC13(sc *Scenario, h *History, st *Stats) string {
	x := sc.X.(*c13X)
	dup := false
	seen := map[string]bool{}
	for _, a := range x.Accepted {
		if seen[a] {
			dup = true
		}
		seen[a] = true
	}
	if dup {
		st.Probes["duplicate_recipient"]++
	}
	if len(x.Rcpts) > len(x.Accepted) {
		st.Probes["rejected_rcpt_interleaved"]++
	}
	if x.Panic {
		st.Probes["backend_panic"]++
		if sc.LogPark > 0 {
			st.Probes["backend_panic_logged_to_slow_sink"]++
		}
	}
	if x.EarlyOK {
		st.Probes["backend_returns_nil_early"]++
	}
	if x.Stall {
		st.Faults["read_timeout_inside_LMTP_DATA_peer_keeps_listening"]++
	}
	if x.Prelude > 0 {
		st.Probes["earlier_transaction_"+[]string{"", "ended_by_RSET", "BDAT_refused_for_size", "BDAT_malformed_then_RSET", "completed_with_DATA", "completed_with_BDAT", "aborted_delivery_panics_late"}[x.Prelude]]++
	}
	if x.MidRefused >= 0 {
		st.Probes["malformed_BDAT_refused_between_the_recipients"]++
	}
	if x.Backpressure {
		st.Faults["unbuffered_network_long_message_backend_done_early"]++
	}
	if x.EarlyFail >= 0 {
		st.Probes["backend_fails_early"]++
		if x.ViaBdat && x.FailChunk == len(x.Chunks)-1 {
			st.Probes["backend_fails_early_during_LAST_chunk"]++
		}
	}
	if x.OutOfContract {
		st.Probes["out_of_contract_backend"]++
	}
	dp := sc.BE.Conns[0].Data[0]
	var sts []string
	for _, s := range dp.Statuses {
		sts = append(sts, fmt.Sprintf("%s/%d/%d", s.Addr[3:4], s.When, s.V.Kind))
	}
	if len(x.Accepted) < 2 && len(sts) == 0 && !x.Panic && x.EarlyFail < 0 {
		return ""
	}
	return fmt.Sprintf("%v|%v|%v|%d|%v|%d|%v|%d", x.Rcpts, x.ViaBdat, x.Chunks, x.Flavor, sts, dp.V.Kind, x.Panic, x.EarlyFail)
}

func init() {
	register(&Property{
		ID: "C13", Level: "exploration",
		Rule:     "LMTP server; 1-4 accepted recipients over two addresses (duplicates) with rejected RCPTs interleaved; per-recipient backend that sets a drawn subset of statuses in a drawn order before, after and after-a-park relative to consuming the message, returns nil / SMTPError / plain error, panics at one of three points, fails early after k octets, or breaks the contract (too many statuses, unknown recipient: judged for no-deadlock only); plain backend; DATA and BDAT in 1-4 chunks (LAST possibly empty); lock-step or pipelined. Expected final replies come from the occurrence rule (k-th status for an address belongs to its k-th occurrence, else the return value). Non-trivial: >= 2 recipients or any explicit status, panic or early failure; distinct by (recipient list, transfer, chunking, backend flavour, status calls, return kind, panic, early-failure point). An earlier transaction on the same connection with other recipients (systematic: none, RSET, first BDAT refused for size, malformed BDAT then RSET, completed with DATA, completed with BDAT). In a fifth of the runs a BDAT command with a bad LAST token is refused, payload and all, somewhere between the RCPT commands of the judged transaction, which goes on as before. Flow-control stratum: a network that buffers nothing (a Write returns when the peer has read it), a message of 9-12 kB and a backend that has its verdicts after at most 2000 octets - the replies wait to be read while the rest of the message is still being taken.",
		Gen:      genC13,
		Check:    checkC13,
		Classify: classifyC13,
		Sweep: func(tier string) []map[string]int {
			reps := 300
			if tier == "thorough" {
				reps = 20000
			}
			var out []map[string]int
			for r := 0; r < reps; r++ {
				for f := 0; f < 2; f++ {
					for b := 0; b < 2; b++ {
						for m := 0; m < 4; m++ {
							out = append(out, map[string]int{"c13flavor": f, "c13bdat": b, "c13mode": m, "c13prelude": r % 7})
						}
					}
				}
			}
			return out
		},
		Real:        []string{"smtp.Server.Serve/handleConn", "smtp.Conn handleDataLMTP, handleBdat (LMTP), statusCollector, delivery goroutines, panic recovery", "io.Pipe", "net/textproto", "bufio"},
		Stub:        []string{"net.Listener (SimListener)", "net.Conn (SimConn)", "Backend/LMTPSession/StatusCollector caller (SimBackend)", "clock (synctest)", "LMTP client (raw driver)"},
		Assumptions: []string{"statuses a backend set explicitly before it panicked are honoured; the others must not be 2xx", "out-of-contract backends are judged only for no deadlock / no crash"},
		Required:    []string{"backend_fails_early_during_LAST_chunk", "backend_returns_nil_early", "backend_panic_logged_to_slow_sink", "duplicate_recipient", "out_of_contract_backend", "rejected_rcpt_interleaved", "backend_panic", "earlier_transaction_BDAT_refused_for_size", "earlier_transaction_BDAT_malformed_then_RSET", "earlier_transaction_completed_with_BDAT", "read_timeout_inside_LMTP_DATA_peer_keeps_listening", "earlier_transaction_aborted_delivery_panics_late", "malformed_BDAT_refused_between_the_recipients", "unbuffered_network_long_message_backend_done_early"},
		Instr:       true,
		QuickRuns:   200000, ThoroughRuns: 4000000,
	})
}
