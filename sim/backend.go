package sim

import (
	"crypto/tls"
	"errors"
	"fmt"
	"io"
	"net"
	"strings"
	"sync"
	"time"

	"github.com/emersion/go-sasl"
	smtp "github.com/emersion/go-smtp"
)

// Verdict is what a backend callback returns.
type Verdict struct {
	Kind int // 0 accept, 1 *SMTPError, 2 plain error, 3 panic
	Code int
	Enh  [3]int
	Msg  string
}

const (
	vOK = iota
	vSMTP
	vPlain
	vPanic
)

func (v Verdict) err() error {
	switch v.Kind {
	case vSMTP:
		return &smtp.SMTPError{Code: v.Code, EnhancedCode: smtp.EnhancedCode(v.Enh), Message: v.Msg}
	case vPlain:
		return errors.New(v.Msg)
	case vPanic:
		panic("simulated backend panic: " + v.Msg)
	}
	return nil
}

func (v Verdict) String() string {
	switch v.Kind {
	case vSMTP:
		return fmt.Sprintf("smtp(%d %d.%d.%d %q)", v.Code, v.Enh[0], v.Enh[1], v.Enh[2], v.Msg)
	case vPlain:
		return fmt.Sprintf("err(%q)", v.Msg)
	case vPanic:
		return fmt.Sprintf("panic(%q)", v.Msg)
	}
	return "ok"
}

// addrVerdict derives the verdict of Mail/Rcpt from the address itself, so the
// oracle can compute it from what was on the wire and plans survive shrinking.
// Local parts starting with "r5" are refused 550, "r4" 451, "pe" plain error,
// "pn" panic; everything else is accepted.
func addrVerdict(addr string) Verdict {
	switch {
	case strings.HasPrefix(addr, "r5"):
		if digitSum(addr)%2 == 1 {
			// an SMTPError whose EnhancedCode the backend left unset: the server derives 5.0.0
			return Verdict{Kind: vSMTP, Code: 550, Msg: "no such user " + sanitize(addr)}
		}
		return Verdict{Kind: vSMTP, Code: 550, Enh: [3]int{5, 1, 1}, Msg: "no such user " + sanitize(addr)}
	case strings.HasPrefix(addr, "r4"):
		if digitSum(addr)%2 == 1 {
			return Verdict{Kind: vSMTP, Code: 451, Msg: "try later " + sanitize(addr)}
		}
		return Verdict{Kind: vSMTP, Code: 451, Enh: [3]int{4, 2, 1}, Msg: "try later " + sanitize(addr)}
	case strings.HasPrefix(addr, "pe"):
		return Verdict{Kind: vPlain, Msg: "backend failure for " + sanitize(addr)}
	case strings.HasPrefix(addr, "pn"):
		return Verdict{Kind: vPanic, Msg: "on " + sanitize(addr)}
	}
	return Verdict{}
}

// digitSum adds up the decimal digits of the local part: a cheap way to let the
// address decide between two forms of the same verdict.
func digitSum(addr string) int {
	n := 0
	for _, c := range addr {
		if c == '@' {
			break
		}
		if c >= '0' && c <= '9' {
			n += int(c - '0')
		}
	}
	return n
}

func sanitize(s string) string {
	b := []byte(s)
	for i, c := range b {
		if c < 0x20 || c > 0x7e {
			b[i] = '?'
		}
	}
	return string(b)
}

// StatusCall is one SetStatus call an LMTP backend makes.
type StatusCall struct {
	Addr string
	V    Verdict
	When int // 0 before reading, 1 after reading, 2 after the pre-return park
	Park Dur // park before making the call
}

// DataPlan scripts one Data/LMTPData call.
type DataPlan struct {
	ReadSizes  []int // buffer sizes, cycled; empty = 512
	ReadMode   int   // 0 until EOF or error, 1 at most ReadK octets, 2 nothing
	ReadK      int
	ParkReads  []Dur // park before each read, cycled
	ParkBefore Dur
	ParkAfter  Dur
	V          Verdict
	Statuses   []StatusCall
	PanicWhen  int // for V.Kind==vPanic: 0 on entry, 3 after the first statuses but before reading, 1 after reading, 2 at the end
	// IgnoreReadErr: accept the message even though the reader failed. By
	// default the backend behaves like io.ReadAll-based backends do and
	// returns the reader's (non-EOF) error.
	IgnoreReadErr bool
	// ReadOnAfterTimeout: a backend that treats a read timeout as temporary: it pushes
	// the connection\'s read deadline forward and goes on reading (at most three times).
	ReadOnAfterTimeout bool
	// ContentVerdict: the verdict is a function of the message actually read:
	// a message containing "verdict:E-<k>;" is rejected with SMTPError 554
	// "E-<k>", anything else is accepted (unless the reader failed).
	ContentVerdict bool
}

const (
	readAll = iota
	readK
	readNone
	readCopy // the backend hands the reader to io.Copy (which prefers the source's WriteTo, if it has one)
)

// ConnBackendPlan scripts the backend for one connection.
type ConnBackendPlan struct {
	NewSession     []Verdict // by occurrence on this connection; beyond the list: accept
	Data           []DataPlan
	ParkNewSession Dur // NewSession is slow (it is called with no lock held)
	ParkMail       Dur
	ParkRcpt       Dur
	ParkLogout     Dur  // only applied when Logout is not called under Conn.locker
	LogoutErr      bool // Logout returns an error (the interface allows it; nothing may depend on it)
	PanicLogout    bool // every Logout on this connection panics
	PanicReset     int  // the n-th Reset on this connection panics (1-based; 0 never)
	Auth           *AuthPlan
}

// BackendPlan scripts the whole backend.
type BackendPlan struct {
	Flavor int // 0 plain Session, 1 LMTPSession, 2 AuthSession, 3 LMTP+Auth
	Conns  []ConnBackendPlan
}

const (
	bePlain = iota
	beLMTP
	beAuth
	beLMTPAuth
)

// ReadCall is one Read on the reader handed to Data.
type ReadCall struct {
	Buf int
	N   int
	Err string
}

// BEvent is one backend callback, begin to end.
type BEvent struct {
	Seq      int
	Conn     int
	Sess     int
	Kind     string
	KindIdx  int // index among the callbacks of this kind on this connection
	Begin    int64
	End      int64
	Done     bool
	Panicked bool
	Arg      string
	Opts     string
	Res      string // "" = nil
	ResCode  int
	// SrvWritten is the number of octets the server had written on this
	// connection when the callback began: it places the callback between two
	// replies.
	SrvWritten int

	// NewSession
	Hostname string
	TLS      bool

	// Data / LMTPData
	DataIdx     int
	Read        []byte
	Calls       []ReadCall
	Terminal    string // error of the last Read that returned one ("" if none yet)
	SawEOF      bool
	EarlyReturn bool   // the backend returned with a part of the message unread ("early" messages)
	Contract    string // io.Reader contract breach, if any
	StatusSet   []string
	termErr     error
	sc          *SimConn // server endpoint of the connection (nil if unknown)
	readOns     int      // times the backend read on after a timeout
}

// SimBackend is the plan-driven, recording backend.
type SimBackend struct {
	plan BackendPlan

	mu        sync.Mutex
	events    []*BEvent
	nsess     int
	perConn   map[int]*connCounters
	srvConns  map[int]*SimConn
	kindCount map[string]int
}

type connCounters struct {
	newSession int
	data       int
}

func NewSimBackend(plan BackendPlan) *SimBackend {
	return &SimBackend{plan: plan, perConn: map[int]*connCounters{}, srvConns: map[int]*SimConn{}, kindCount: map[string]int{}}
}

func (b *SimBackend) connPlan(conn int) *ConnBackendPlan {
	if conn >= 0 && conn < len(b.plan.Conns) {
		return &b.plan.Conns[conn]
	}
	if len(b.plan.Conns) > 0 {
		return &b.plan.Conns[len(b.plan.Conns)-1]
	}
	return &ConnBackendPlan{}
}

// begin allocates the record of a callback. This is the only place a callback
// synchronises with other goroutines; after it, the callback touches only ev.
func (b *SimBackend) simConn(conn int) *SimConn {
	b.mu.Lock()
	defer b.mu.Unlock()
	return b.srvConns[conn]
}

func (b *SimBackend) begin(conn, sess int, kind, arg string) *BEvent {
	now := time.Now().UnixNano()
	written := 0
	b.mu.Lock()
	sc := b.srvConns[conn]
	b.mu.Unlock()
	if sc != nil {
		sc.wr.mu.Lock()
		written = len(sc.wr.buf)
		sc.wr.mu.Unlock()
	}
	b.mu.Lock()
	ev := &BEvent{Seq: len(b.events), Conn: conn, Sess: sess, Kind: kind, Begin: now, Arg: arg, SrvWritten: written, sc: sc}
	key := kind + "/" + itoa(conn)
	ev.KindIdx = b.kindCount[key]
	b.kindCount[key]++
	b.events = append(b.events, ev)
	b.mu.Unlock()
	return ev
}

func (ev *BEvent) finish(err error) {
	if err != nil {
		ev.Res = err.Error()
		if se, ok := err.(*smtp.SMTPError); ok {
			ev.ResCode = se.Code
		} else {
			ev.ResCode = -1
		}
	}
	ev.End = time.Now().UnixNano()
	ev.Done = true
}

// class is the residue class in which this callback parks. It is derived
// from the connection and the callback's index among the callbacks of its kind
// on that connection - not from the global sequence number, whose order among
// callbacks of different goroutines at one instant is up to the Go scheduler.
func (ev *BEvent) class() int {
	k := 0
	for _, c := range ev.Kind {
		k = k*31 + int(c)
	}
	return 100 + ((ev.Conn+1)*211+ev.KindIdx*17+k%13)%800
}

func (ev *BEvent) park(d Dur) {
	if d > 0 {
		if ev.sc != nil && ev.sc.owner != nil && !raceTier && heldByCaller(ev.sc.owner) {
			// a callback made with the Conn's mutex held is not parked (the fake clock
			// would freeze as soon as somebody waits for the mutex)
			return
		}
		sleepClass(ev.class(), d)
	}
}

func simConnOf(c net.Conn) *SimConn {
	for i := 0; i < 3; i++ {
		switch x := c.(type) {
		case *SimConn:
			return x
		case *tls.Conn:
			c = x.NetConn()
		default:
			return nil
		}
	}
	return nil
}

func (b *SimBackend) NewSession(c *smtp.Conn) (smtp.Session, error) {
	id := -1
	if sc := simConnOf(c.Conn()); sc != nil {
		id = sc.ID
	}
	b.mu.Lock()
	cc := b.perConn[id]
	if cc == nil {
		cc = &connCounters{}
		b.perConn[id] = cc
	}
	occ := cc.newSession
	cc.newSession++
	b.nsess++
	sessID := b.nsess
	b.mu.Unlock()

	ev := b.begin(id, sessID, "NewSession", "")
	ev.Hostname = c.Hostname()
	_, ev.TLS = c.TLSConnectionState()
	cp := b.connPlan(id)
	var v Verdict
	if occ < len(cp.NewSession) {
		v = cp.NewSession[occ]
	}
	ev.park(cp.ParkNewSession)
	if v.Kind == vPanic {
		ev.Panicked = true
		ev.End = time.Now().UnixNano()
		ev.Done = true
	}
	err := v.err()
	ev.finish(err)
	if err != nil {
		return nil, err
	}
	s := &simSession{b: b, conn: id, id: sessID, cp: cp, cc: cc}
	switch b.plan.Flavor {
	case beLMTP:
		return &simLMTPSession{s}, nil
	case beAuth:
		return &simAuthSession{s}, nil
	case beLMTPAuth:
		return &simLMTPAuthSession{simLMTPSession{s}}, nil
	}
	return s, nil
}

type simSession struct {
	b    *SimBackend
	conn int
	id   int
	cp   *ConnBackendPlan
	cc   *connCounters
}

func (s *simSession) Reset() {
	ev := s.b.begin(s.conn, s.id, "Reset", "")
	if s.cp.PanicReset > 0 && ev.KindIdx+1 == s.cp.PanicReset {
		ev.Panicked = true
		ev.End = time.Now().UnixNano()
		ev.Done = true
		panic("simulated backend panic: in Reset")
	}
	ev.finish(nil)
}

func (s *simSession) Logout() error {
	ev := s.b.begin(s.conn, s.id, "Logout", "")
	if s.cp.ParkLogout > 0 && !logoutLocked(s.b.simConn(s.conn)) {
		ev.park(s.cp.ParkLogout)
	}
	if s.cp.PanicLogout {
		ev.Panicked = true
		ev.End = time.Now().UnixNano()
		ev.Done = true
		panic("simulated backend panic: in Logout")
	}
	if s.cp.LogoutErr {
		err := errors.New("logout failed")
		ev.finish(err)
		return err
	}
	ev.finish(nil)
	return nil
}

func fmtMailOpts(o *smtp.MailOptions) string {
	if o == nil {
		return "nil"
	}
	auth := "nil"
	if o.Auth != nil {
		auth = fmt.Sprintf("%q", *o.Auth)
	}
	return fmt.Sprintf("body=%s size=%d reqtls=%v utf8=%v ret=%s envid=%q auth=%s", o.Body, o.Size, o.RequireTLS, o.UTF8, o.Return, o.EnvelopeID, auth)
}

func fmtRcptOpts(o *smtp.RcptOptions) string {
	if o == nil {
		return "nil"
	}
	return fmt.Sprintf("notify=%v orcpt=%s;%q rrvs=%v", o.Notify, o.OriginalRecipientType, o.OriginalRecipient, o.RequireRecipientValidSince.Unix())
}

func (s *simSession) Mail(from string, opts *smtp.MailOptions) error {
	ev := s.b.begin(s.conn, s.id, "Mail", from)
	ev.Opts = fmtMailOpts(opts)
	v := addrVerdict(from)
	ev.park(s.cp.ParkMail)
	if v.Kind == vPanic {
		ev.Panicked = true
		ev.finish(nil)
	}
	err := v.err()
	ev.finish(err)
	return err
}

func (s *simSession) Rcpt(to string, opts *smtp.RcptOptions) error {
	ev := s.b.begin(s.conn, s.id, "Rcpt", to)
	ev.Opts = fmtRcptOpts(opts)
	v := addrVerdict(to)
	ev.park(s.cp.ParkRcpt)
	if v.Kind == vPanic {
		ev.Panicked = true
		ev.finish(nil)
	}
	err := v.err()
	ev.finish(err)
	return err
}

func (s *simSession) nextData() (int, DataPlan) {
	s.b.mu.Lock()
	i := s.cc.data
	s.cc.data++
	s.b.mu.Unlock()
	if i < len(s.cp.Data) {
		return i, s.cp.Data[i]
	}
	return i, DataPlan{}
}

// consume reads from r as the plan says, recording everything into ev with
// plain stores only.
func (ev *BEvent) consume(r io.Reader, p *DataPlan) {
	if p.ReadMode == readNone {
		return
	}
	if p.ReadMode == readCopy {
		_, err := io.Copy(evWriter{ev}, r)
		if err != nil {
			ev.Terminal = err.Error()
			ev.termErr = err
		} else {
			ev.Terminal = "EOF"
			ev.SawEOF = true
		}
		return
	}
	i := 0
	for {
		if p.ReadMode == readK && len(ev.Read) >= p.ReadK {
			return
		}
		if p.ContentVerdict {
			// a message marked "early" is refused as soon as its verdict has been read,
			// with the rest of it still on its way
			if i := strings.Index(string(ev.Read), "early verdict:E-"); i >= 0 && strings.IndexByte(string(ev.Read[i:]), ';') > 0 {
				ev.EarlyReturn = true
				return
			}
		}
		if len(p.ParkReads) > 0 {
			ev.park(p.ParkReads[i%len(p.ParkReads)])
		}
		sz := 512
		if len(p.ReadSizes) > 0 {
			sz = p.ReadSizes[i%len(p.ReadSizes)]
		}
		if sz <= 0 {
			sz = 1
		}
		if p.ReadMode == readK && len(ev.Read)+sz > p.ReadK {
			sz = p.ReadK - len(ev.Read)
		}
		i++
		buf := make([]byte, sz)
		n, err := r.Read(buf)
		if _, pipe := r.(*io.PipeReader); pipe {
			// A read from the delivery pipe returns when the command loop wrote or closed
			// it, at the command loop's instant and next to it: go on at an instant of
			// our own (this goroutine never holds the Conn's mutex).
			sleepClass(ev.class(), 0)
		}
		rc := ReadCall{Buf: sz, N: n}
		if err != nil {
			rc.Err = err.Error()
		}
		ev.Calls = append(ev.Calls, rc)
		if n < 0 || n > sz {
			ev.Contract = fmt.Sprintf("Read returned n=%d for a buffer of %d", n, sz)
			return
		}
		if n == 0 && err == nil {
			ev.Contract = "Read returned 0, nil"
			if len(ev.Calls) > 100000 {
				return
			}
		}
		ev.Read = append(ev.Read, buf[:n]...)
		if err != nil && p.ReadOnAfterTimeout && ev.readOns < 3 && ev.sc != nil {
			if ne, ok := err.(net.Error); ok && ne.Timeout() {
				ev.readOns++
				ev.sc.SetReadDeadline(time.Now().Add(10 * time.Minute))
				continue
			}
		}
		if err != nil {
			ev.Terminal = err.Error()
			if err == io.EOF {
				ev.SawEOF = true
			} else {
				ev.termErr = err
			}
			return
		}
	}
}

// evWriter collects what io.Copy hands over.
type evWriter struct{ ev *BEvent }

func (w evWriter) Write(b []byte) (int, error) {
	w.ev.Read = append(w.ev.Read, b...)
	return len(b), nil
}

func (s *simSession) Data(r io.Reader) error {
	idx, p := s.nextData()
	ev := s.b.begin(s.conn, s.id, "Data", "")
	ev.DataIdx = idx
	return s.runData(ev, r, &p, nil)
}

func (s *simSession) runData(ev *BEvent, r io.Reader, p *DataPlan, sc smtp.StatusCollector) (err error) {
	defer func() {
		if rec := recover(); rec != nil {
			ev.Panicked = true
			ev.End = time.Now().UnixNano()
			ev.Done = true
			panic(rec)
		}
	}()
	setStatuses := func(when int) {
		if sc == nil {
			return
		}
		for _, st := range p.Statuses {
			if st.When != when {
				continue
			}
			ev.park(st.Park)
			ev.StatusSet = append(ev.StatusSet, st.Addr+"="+st.V.String())
			var e error
			if st.V.Kind != vPanic {
				e = st.V.err()
			}
			sc.SetStatus(st.Addr, e)
			// SetStatus wakes the command loop, which then runs next to this goroutine:
			// go on at an instant of our own, when it has run to its next blocking point
			sleepClass(ev.class(), 0)
		}
	}
	ev.park(p.ParkBefore)
	if p.V.Kind == vPanic && p.PanicWhen == 0 {
		p.V.err()
	}
	setStatuses(0)
	if p.V.Kind == vPanic && p.PanicWhen == 3 {
		p.V.err()
	}
	ev.consume(r, p)
	if p.V.Kind == vPanic && p.PanicWhen == 1 {
		p.V.err()
	}
	setStatuses(1)
	ev.park(p.ParkAfter)
	setStatuses(2)
	if p.V.Kind == vPanic {
		p.V.err()
	}
	err = p.V.err()
	if p.ContentVerdict {
		err = nil
		if i := strings.Index(string(ev.Read), "verdict:E-"); i >= 0 {
			rest := string(ev.Read[i+len("verdict:"):])
			if j := strings.IndexByte(rest, ';'); j > 0 {
				err = &smtp.SMTPError{Code: 554, EnhancedCode: smtp.EnhancedCode{5, 6, 0}, Message: rest[:j]}
			}
		}
	}
	if p.ContentVerdict && ev.termErr != nil && ev.termErr != smtp.ErrDataReset {
		// (a reader error of its own kind - the size limit, a timeout - is passed on as it is)
		err = ev.termErr
	}
	if p.ContentVerdict && ev.termErr == smtp.ErrDataReset {
		// an aborted delivery reports an error that names the message it belonged to
		tag := "empty"
		if i := strings.Index(string(ev.Read), "msg-"); i >= 0 {
			tag = string(ev.Read[i:])
			if j := strings.IndexAny(tag, " \r\n"); j > 0 {
				tag = tag[:j]
			}
		}
		err = &smtp.SMTPError{Code: 554, EnhancedCode: smtp.EnhancedCode{5, 0, 0}, Message: "stale-" + tag}
	}
	if err == nil && ev.termErr != nil && !p.IgnoreReadErr {
		err = ev.termErr
	}
	ev.finish(err)
	return err
}

type simLMTPSession struct{ *simSession }

func (s *simLMTPSession) LMTPData(r io.Reader, sc smtp.StatusCollector) error {
	idx, p := s.nextData()
	ev := s.b.begin(s.conn, s.id, "LMTPData", "")
	ev.DataIdx = idx
	return s.runData(ev, r, &p, sc)
}

type simAuthSession struct{ *simSession }

func (s *simAuthSession) AuthMechanisms() []string { return s.authMechs() }
func (s *simAuthSession) Auth(mech string) (sasl.Server, error) {
	return s.auth(mech)
}

type simLMTPAuthSession struct{ simLMTPSession }

func (s *simLMTPAuthSession) AuthMechanisms() []string { return s.authMechs() }
func (s *simLMTPAuthSession) Auth(mech string) (sasl.Server, error) {
	return s.auth(mech)
}

// Events returns the recorded callbacks (call after the bubble has ended).
func (b *SimBackend) Events() []*BEvent {
	b.mu.Lock()
	defer b.mu.Unlock()
	out := make([]*BEvent, len(b.events))
	copy(out, b.events)
	return out
}
