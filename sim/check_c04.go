package sim

import (
	"bytes"
	"fmt"
	"regexp"
	"strings"
)

// C04 - one well-formed reply per command, in order, reporting that command's
// outcome. Shares the history generator with C03.

func genC04(t *Tape, tier string) *Scenario {
	sc := &Scenario{Prop: "C04"}
	sc.X = genHistory(t, sc, "C04")
	return sc
}

var tagRe = regexp.MustCompile(`msg-\d+`)
var verdictRe = regexp.MustCompile(`verdict:(E-\d+);`)
var echoedRe = regexp.MustCompile(`(E-\d+|stale-[a-z0-9-]+)`)

func checkC04(sc *Scenario, h *History) []Violation {
	var out []Violation
	x := sc.X.(*histX)
	ch := h.Conns[0]
	replies, rest := parseReplies(ch.S2C.Buf)
	w := walkWire(ch.Sent, replies, sc.Srv.LMTP)
	wit := fmt.Sprintf("cmds=%v lmtp=%v discipline=%d", x.Cmds, sc.Srv.LMTP, x.Discipline)
	v := func(rule, format string, a ...interface{}) {
		if len(out) < 4 {
			out = append(out, Violation{Rule: rule, Detail: fmt.Sprintf(format, a...), Witness: wit})
		}
	}
	serverClosed := ch.S2C.ClosedAt != 0 && (ch.SrvCloseSeq >= 0)
	// (1) syntax of every reply
	for _, r := range replies {
		if len(r.Syntax) > 0 {
			v("C04.syntax", "reply %q is not a valid RFC 5321 reply: %s", clip(string(ch.S2C.Buf[r.Start:r.End]), 120), strings.Join(r.Syntax, "; "))
			break
		}
	}
	if len(rest) > 0 {
		v("C04.syntax", "the reply stream ends with an incomplete reply %q", clip(string(rest), 80))
	}
	// (2) enhanced status codes
	for _, u := range w.Units {
		if u.Verb == "HELO" || u.Verb == "EHLO" || u.Verb == "LHLO" {
			continue
		}
		for _, r := range u.Replies {
			if r.Code/100 == 3 || len(r.Syntax) > 0 {
				continue
			}
			if enhancedClass(r.Last()) != r.Code/100 {
				v("C04.enhanced-code", "reply %q to %q carries no enhanced status code of class %d", r.String(), clip(u.Line, 40), r.Code/100)
			}
		}
	}
	// (3) count and order
	if w.Short && !serverClosed {
		missing := ""
		for _, u := range w.Units {
			if len(u.Replies) < u.Expect {
				missing = fmt.Sprintf("%s %q (got %d of %d replies)", u.Kind, clip(u.Line, 40), len(u.Replies), u.Expect)
				break
			}
		}
		v("C04.missing-reply", "the server kept the connection open but did not answer %s", missing)
	}
	if len(w.Surplus) > 0 {
		if !(len(w.Surplus) == 1 && serverClosed && w.Surplus[0].Code/100 >= 4) {
			var s []string
			for _, r := range w.Surplus {
				s = append(s, r.String())
			}
			v("C04.surplus-reply", "%d replies that no command calls for (server closed=%v): %s", len(w.Surplus), serverClosed, strings.Join(s, " / "))
		}
	}
	// (4) each message's final reply reports that very message's outcome
	evs := dataEvents(h, 0)
	findEvent := func(tag string) *BEvent {
		for _, e := range evs {
			if bytes.Contains(e.Read, []byte(tag+" ")) {
				return e
			}
		}
		return nil
	}
	// writtenAt is the instant at which the server wrote the octet at this offset of its stream.
	writtenAt := func(off int) int64 {
		for _, wr := range ch.S2C.Writes {
			if off >= wr.Off && off < wr.Off+wr.N {
				return wr.At
			}
		}
		return 1 << 62
	}
	judgeFinal := func(u *Unit, msgTags []string, firstTag string) {
		own := map[string]bool{}
		for _, t := range msgTags {
			own[t] = true
		}
		var d *BEvent
		if firstTag != "" {
			d = findEvent(firstTag)
		}
		for _, r := range u.Replies {
			if serverClosed && w.Short && r.Start == replies[len(replies)-1].Start && r.Code/100 >= 4 {
				// The server gave up with commands unanswered: its last reply may be the
				// closing notice, which the walk attributes to the next command.
				continue
			}
			if serverClosed && r.Start == replies[len(replies)-1].Start && r.Code/100 >= 4 && d != nil && d.Done && d.End > writtenAt(r.Start) {
				// The same when the notice falls on the very last command (nothing is left
				// unanswered then): a negative last reply, after which the server closed, written
				// before the backend had returned from this message's Data call, cannot be the
				// report of that call's outcome - it is the notice of giving up (seed 5, run
				// 2 635 968 of the thorough tier: error threshold reached inside an open transfer).
				continue
			}
			text := strings.Join(r.Lines, " ")
			for _, m := range echoedRe.FindAllString(text, -1) {
				if strings.HasPrefix(m, "stale-") {
					v("C04.stale-verdict", "final reply %q for message %s carries the outcome of an aborted delivery", r.String(), firstTag)
				} else if !own[m] {
					v("C04.foreign-verdict", "final reply %q for message %s carries the error of another message", r.String(), firstTag)
				}
			}
			if d == nil || !d.Done {
				continue
			}
			pos := r.Code/100 == 2
			if pos != (d.Res == "") {
				v("C04.verdict", "message %s: the backend's Data returned %q but the final reply is %q", firstTag, d.Res, r.String())
			}
			if pos && !d.SawEOF {
				v("C04.verdict", "message %s answered %q although the backend never saw its end", firstTag, r.String())
			}
			if !pos && strings.Contains(d.Res, "E-") {
				want := echoedRe.FindString(d.Res)
				if !strings.Contains(text, want) {
					v("C04.verdict", "message %s was rejected with %q but the reply is %q", firstTag, d.Res, r.String())
				}
			}
		}
	}
	var xferTags []string // verdict ids of the chunks accepted so far in the open transfer
	xferFirst := ""
	for i := range w.Units {
		u := &w.Units[i]
		// a message the backend was handed in full and decided on is answered
		if len(u.Replies) == 0 {
			tag := ""
			switch {
			case u.Kind == "body" && u.Complete:
				tag = tagRe.FindString(string(u.Msg))
			case u.Kind == "cmd" && u.Verb == "BDAT" && u.HasSize && u.Last:
				tag = xferFirst
				if tag == "" && u.Size > 0 && i+1 < len(w.Units) && w.Units[i+1].Kind == "payload" {
					tag = tagRe.FindString(string(w.Units[i+1].Msg))
				}
			}
			if tag != "" {
				if d := findEvent(tag); d != nil && d.Done && d.SawEOF {
					v("C04.missing-reply", "message %s was delivered to the backend in full (Data returned %q) but no final reply was ever sent", tag, d.Res)
				}
			}
		}
		switch {
		case u.Kind == "body" && u.Complete && len(u.Replies) > 0:
			tag := tagRe.FindString(string(u.Msg))
			var ids []string
			for _, m := range verdictRe.FindAllStringSubmatch(string(u.Msg), -1) {
				ids = append(ids, m[1])
			}
			judgeFinal(u, ids, tag)
		case u.Kind == "cmd" && u.Verb == "BDAT" && u.HasSize && len(u.Replies) > 0:
			r := u.Replies[0]
			var payload []byte
			if u.Size > 0 && i+1 < len(w.Units) && w.Units[i+1].Kind == "payload" {
				payload = w.Units[i+1].Msg
			}
			refused := r.Code == 501 || r.Code == 502
			if refused {
				for _, m := range echoedRe.FindAllString(strings.Join(r.Lines, " "), -1) {
					v("C04.foreign-verdict", "refusal %q of %q carries a backend verdict %s", r.String(), u.Line, m)
				}
				continue
			}
			if !u.Last {
				if r.Code/100 == 2 {
					if xferFirst == "" {
						xferFirst = tagRe.FindString(string(payload))
					}
					for _, m := range verdictRe.FindAllStringSubmatch(string(payload), -1) {
						xferTags = append(xferTags, m[1])
					}
				} else {
					// a failed chunk ends the transfer; its reply may carry this transfer's own error only
					for _, m := range echoedRe.FindAllString(strings.Join(r.Lines, " "), -1) {
						if strings.HasPrefix(m, "stale-") && m != "stale-"+xferFirst {
							v("C04.stale-verdict", "reply %q to %q carries the outcome of another, aborted delivery", r.String(), u.Line)
						}
					}
					xferTags, xferFirst = nil, ""
				}
				continue
			}
			first := xferFirst
			if first == "" {
				first = tagRe.FindString(string(payload))
			}
			ids := append([]string{}, xferTags...)
			for _, m := range verdictRe.FindAllStringSubmatch(string(payload), -1) {
				ids = append(ids, m[1])
			}
			judgeFinal(u, ids, first)
			xferTags, xferFirst = nil, ""
		case u.Kind == "cmd" && (u.Verb == "RSET" || u.Verb == "EHLO" || u.Verb == "HELO" || u.Verb == "LHLO") && len(u.Replies) > 0 && u.Replies[0].Code == 250:
			xferTags, xferFirst = nil, ""
		}
		// no other reply may carry a backend data verdict at all
		if u.Kind == "cmd" && u.Verb != "BDAT" {
			for _, r := range u.Replies {
				if m := echoedRe.FindString(strings.Join(r.Lines, " ")); m != "" {
					v("C04.foreign-verdict", "reply %q to %q carries a message verdict %s", r.String(), clip(u.Line, 40), m)
				}
			}
		}
	}
	return out
}

func init() {
	p3 := registry["C03"]
	register(&Property{
		ID: "C04", Level: "exploration",
		Rule:     "the command histories of C03 (46-symbol alphabet including lines with control octets, binary garbage and multi-step AUTH exchanges against a scripted SASL mechanism, <= 25 commands), each run lock-step, as one write, or under arbitrary segmentation; every message body/chunk carries a unique tag and its own verdict (ok or a unique rejection E-k) that the backend derives from the content it actually read; aborted deliveries return slowly (up to 4 ms) with an error naming the message they belonged to, so that they complete at any point of what follows. The client stream and the reply stream are walked in tandem by a reference framing model. Non-trivial: >= 3 commands; distinct by (symbol sequence, discipline, mode, limits, backend flavour). Early-refusing backends and callbacks slower than ReadTimeout as in C03; every message the backend was handed in full must get its final reply.",
		Gen:      genC04,
		Check:    checkC04,
		Classify: classifyHist,
		Sweep:    p3.Sweep,
		Required: p3.Required,
		Real:     p3.Real, Stub: p3.Stub,
		Assumptions: []string{"8-bit octets and the length of reply lines are not judged", "the expected number of replies is computed from the replies themselves (354, 334, LMTP recipient count, closing notice)", "enhanced status codes are required on the last line of a reply"},
		Instr:       true,
		QuickRuns:   250000, ThoroughRuns: 6000000,
	})
}
