package sim

import (
	"bytes"
	"fmt"
	"time"
)

// C01 - DATA body reaches the backend byte-exact after dot-unstuffing,
// independent of segmentation and backend read sizes.

const c01ClassBodies = 5461 // strings over {'.',CR,LF,'x'} of length 0..6

func classBody(idx int) []byte {
	// idx enumerates strings by length then lexicographically
	alpha := []byte{'x', '.', '\r', '\n'}
	n := 0
	count := 1
	for idx >= count {
		idx -= count
		n++
		count *= 4
	}
	out := make([]byte, n)
	for i := n - 1; i >= 0; i-- {
		out[i] = alpha[idx%4]
		idx /= 4
	}
	return out
}

// drawBody draws a seeded message body over all 256 octets, with LF-free runs
// kept below maxLine-2 (such lines must never be refused, C19).
func drawBody(t *Tape, maxLine int, big bool) []byte {
	run := 60
	if maxLine > 0 && maxLine-4 < run {
		run = maxLine - 4
	}
	ntok := 1 + t.Intn(24)
	if big {
		ntok = 80 + t.Intn(120)
	}
	var b []byte
	lineLen := 0
	emit := func(s []byte) {
		for _, c := range s {
			if maxLine > 0 && c != '\n' && lineLen >= maxLine-3 {
				b = append(b, '\r', '\n')
				lineLen = 0
			}
			b = append(b, c)
			lineLen++
			if c == '\n' {
				lineLen = 0
			}
		}
	}
	for i := 0; i < ntok; i++ {
		switch t.Pick(6, 3, 2, 2, 3, 2, 1, 1, 1, 1, 1, 1) {
		case 0:
			n := 1 + t.Intn(run)
			if big {
				n = run/2 + t.Intn(run/2+1)
			}
			s := make([]byte, n)
			for j := range s {
				s[j] = byte('a' + (i+j)%26)
			}
			emit(s)
		case 1:
			emit([]byte("\r\n"))
		case 2:
			emit([]byte("."))
		case 3:
			emit([]byte("\r"))
		case 4:
			emit([]byte("\n"))
		case 5:
			emit([]byte("\r\n."))
		case 6:
			emit([]byte("\r\n.."))
		case 7:
			emit([]byte(".\r"))
		case 8:
			emit([]byte("\r\r\n"))
		case 9:
			emit([]byte{0})
		case 10:
			n := 1 + t.Intn(8)
			s := make([]byte, n)
			for j := range s {
				s[j] = t.Byte()
			}
			emit(s)
		default:
			emit([]byte("\n.\n"))
		}
	}
	return b
}

func genC01(t *Tape, tier string) *Scenario {
	sc := &Scenario{Prop: "C01"}
	sc.Srv = drawCfg(t, cfgOpts{allowTLS: true})
	sc.Srv.MaxRcpt = 0
	if sc.Srv.LMTP && t.Bool() {
		sc.BE.Flavor = beLMTP
	}
	cs := ConnScript{}
	cs.Lat = drawLat(t)
	cs.SrvCaps = drawCaps(t)
	steps := []Step{{Kind: kGreetWait, Wait: 1}, {Kind: kHelo, Data: heloLine(sc.Srv), Wait: 1}}
	nmsg := 1 + t.Pick(4, 2, 1)
	forced := t.Named("c01body", c01ClassBodies+1)
	if forced > 0 {
		nmsg = 1
	}
	var cp ConnBackendPlan
	for m := 0; m < nmsg; m++ {
		var body []byte
		switch {
		case forced > 0:
			body = classBody(forced - 1)
		case t.Chance(1, 4):
			body = classBody(t.Intn(c01ClassBodies))
		default:
			body = drawBody(t, sc.Srv.MaxLine, t.Chance(1, 8))
		}
		stream := append(append([]byte{}, body...), []byte("\r\n.\r\n")...)
		_, consumed, _ := unstuff(stream)
		stream = stream[:consumed]
		// offsets worth a segment boundary: around every CR, LF and '.' at line starts, and inside the end marker
		var special []int
		for i := 0; i < len(stream) && len(special) < 64; i++ {
			if stream[i] == '\r' || stream[i] == '\n' || stream[i] == '.' {
				special = append(special, i, i+1)
			}
		}
		steps = append(steps,
			Step{Kind: kMail, Data: line("MAIL FROM:<ok-s%d@a.example>", m), Wait: 1},
			Step{Kind: kRcpt, Data: line("RCPT TO:<ok-r%d@b.example>", m), Wait: 1},
			Step{Kind: kData, Data: []byte("DATA\r\n"), Wait: 1},
			Step{Kind: kBody, Data: stream, Need: 354, Segs: drawSegs(t, len(stream), special), Gaps: drawGaps(t), Wait: -1},
		)
		if len(stream) > 6 && sc.Srv.ReadTO != 10*time.Second && t.Chance(1, 12) {
			// a client that takes a minute inside the message, against a server whose
			// WriteTimeout is seconds: only ReadTimeout (none, or ten minutes) governs
			// how long the server waits for input
			sc.Srv.WriteTO = 5 * time.Second
			b := &steps[len(steps)-1]
			b.Segs = []int{1 + t.Intn(len(stream)-1), len(stream)}
			b.Gaps = []Dur{0, time.Minute}
			steps[len(steps)-4].Pre = 20 * time.Second
			sc.Strata = []string{"pause-longer-than-WriteTimeout"}
		} else if len(stream) > 6 && len(sc.Strata) == 0 && t.Chance(1, 12) {
			// MAIL, RCPT and DATA arrive in one segment, the backend takes 7 s over the
			// recipient, and the client takes 6 s inside the message: with ReadTimeout at 10 s
			// nothing is late, the time a callback takes is not the client's
			sc.Srv.ReadTO = 10 * time.Second
			cp.ParkRcpt = 7 * time.Second
			steps[len(steps)-4].Glue, steps[len(steps)-4].Wait = true, 0
			steps[len(steps)-3].Glue, steps[len(steps)-3].Wait = true, 0
			steps[len(steps)-2].Wait = 3
			b := &steps[len(steps)-1]
			b.Segs = []int{1 + t.Intn(len(stream)-1), len(stream)}
			b.Gaps = []Dur{0, 6 * time.Second}
			sc.Strata = []string{"pipelined-envelope-slow-callback-paced-message"}
		}
		dp := DataPlan{ReadSizes: drawReadSizes(t), ParkReads: drawParks(t)}
		if t.Chance(1, 8) {
			dp.ReadMode = readCopy // a backend that copies the message with io.Copy
		}
		cp.Data = append(cp.Data, dp)
	}
	if cp.ParkRcpt == 7*time.Second {
		// the timing stratum: nobody else takes time - the backend reads without pauses and
		// the server's reads are not capped to an octet at a time
		for i := range cp.Data {
			cp.Data[i].ParkReads = nil
		}
		cs.SrvCaps = nil
		for i := range steps {
			if len(steps[i].Gaps) > 0 && !(len(steps[i].Gaps) == 2 && steps[i].Gaps[1] == 6*time.Second) {
				steps[i].Gaps = nil
			}
		}
	}
	steps = append(steps, Step{Kind: kQuit, Data: []byte("QUIT\r\n"), Wait: 1})
	cs.Steps = steps
	cs.defaults()
	sc.Conns = []ConnScript{cs}
	sc.BE.Conns = []ConnBackendPlan{cp}
	return sc
}

func checkC01(sc *Scenario, h *History) []Violation {
	var out []Violation
	ch := h.Conns[0]
	evs := dataEvents(h, 0)
	k := 0
	for i, st := range sc.Conns[0].Steps {
		if st.Kind != kBody || ch.StepOff[i] < 0 || ch.StepEnd[i]-ch.StepOff[i] != len(st.Data) {
			continue
		}
		want, _, _ := unstuff(st.Data)
		wit := fmt.Sprintf("body=%q", clip(string(st.Data), 80))
		if k >= len(evs) {
			out = append(out, Violation{Rule: "C01.data-called", Detail: fmt.Sprintf("message %d was sent after 354 but the backend's Data was never called", k), Witness: wit})
			break
		}
		ev := evs[k]
		k++
		if ev.Contract != "" {
			out = append(out, Violation{Rule: "C01.reader-contract", Detail: ev.Contract, Witness: wit})
		}
		if !ev.Done {
			out = append(out, Violation{Rule: "C01.data-returned", Detail: "the backend's Data call never returned (reader blocked)", Witness: wit})
			continue
		}
		if !bytes.Equal(ev.Read, want) {
			out = append(out, Violation{Rule: "C01.octets", Detail: fmt.Sprintf("stream %q: backend read %q, reference unstuffing gives %q", clip(string(st.Data), 120), clip(string(ev.Read), 120), clip(string(want), 120)), Witness: wit})
			continue
		}
		if !ev.SawEOF {
			out = append(out, Violation{Rule: "C01.eof", Detail: fmt.Sprintf("reader ended with %q instead of io.EOF after the complete message", ev.Terminal), Witness: wit})
		}
	}
	return out
}

func classifyC01(sc *Scenario, h *History, st *Stats) string {
	fp := ""
	if sc.Srv.ReadTO == 10*time.Second && len(sc.BE.Conns) > 0 && sc.BE.Conns[0].ParkRcpt == 7*time.Second {
		st.Probes["pipelined_envelope_slow_callback_then_message_paced_within_ReadTimeout"]++
	}
	if sc.Srv.WriteTO == 5*time.Second {
		st.Faults["client_pauses_longer_than_WriteTimeout_inside_message"]++
	}
	for i, s := range sc.Conns[0].Steps {
		if s.Kind != kBody || h.Conns[0].StepOff[i] < 0 {
			continue
		}
		nontrivial := false
		bol := true
		for j, c := range s.Data[:maxInt(0, len(s.Data)-3)] {
			if bol && (c == '.' || c == '\r' || c == '\n') {
				nontrivial = true
			}
			bol = c == '\n' && j > 0 && s.Data[j-1] == '\r'
		}
		// a segment boundary inside a CR LF . sequence
		off := 0
		if len(s.Segs) > 0 {
			for k := 0; off < len(s.Data); k++ {
				sz := s.Segs[k%len(s.Segs)]
				if sz <= 0 {
					break
				}
				off += sz
				if off > 0 && off < len(s.Data) {
					a, b := s.Data[off-1], s.Data[off]
					if (a == '\r' && b == '\n') || (a == '\n' && b == '.') || (a == '.' && b == '\r') {
						st.Probes["segment_boundary_inside_CRLF_dot"]++
						nontrivial = true
						break
					}
				}
			}
		}
		if len(s.Data) > 4096 {
			st.Probes["body_crosses_4096_buffer"]++
		}
		if bytes.Contains(s.Data, []byte("\r\n..")) {
			st.Probes["stuffed_dot_line"]++
		}
		if bytes.Contains(s.Data, []byte(".\rx")) || bytes.Contains(s.Data, []byte("\r\r\n")) {
			st.Probes["dotCR_or_CRCRLF"]++
		}
		if nontrivial {
			fp += classString(s.Data, 64) + fmt.Sprint(clipInts(s.Segs, 4))
		}
	}
	if fp != "" {
		for _, d := range sc.BE.Conns[0].Data {
			fp += fmt.Sprint(clipInts(d.ReadSizes, 4))
		}
	}
	return fp
}

func init() {
	register(&Property{
		ID: "C01", Level: "exploration",
		Rule:     "one to three DATA transactions over the raw driver; body = every string over {'.',CR,LF,x} up to length 6 (sweep) or a seeded stream over all 256 octets up to ~9000 octets; transport segmentation (2-splits at CR/LF/dot, byte-wise, random sizes, 4096-boundary), server short reads, backend read-buffer sizes and parks are drawn per run. Non-trivial: the body has '.', CR or LF at a line start, or a segment boundary falls inside a CR LF '.' sequence; distinct by (octet-class string of the body, segmentation plan, read-size plan). Fault stratum: the client pauses for a minute inside the message against a server whose WriteTimeout is 5 s (only ReadTimeout governs input). Timing stratum: MAIL, RCPT and DATA in one segment, a Rcpt callback of 7 s and a 6 s pause inside the message against ReadTimeout 10 s - nothing is late.",
		Gen:      genC01,
		Check:    checkC01,
		Classify: classifyC01,
		Sweep: func(tier string) []map[string]int {
			n := 600
			if tier == "thorough" {
				n = c01ClassBodies * 8
			}
			out := make([]map[string]int, n)
			for i := range out {
				out[i] = map[string]int{"c01body": 1 + (i*9)%c01ClassBodies}
			}
			return out
		},
		Real:        []string{"smtp.Server.Serve/handleConn", "smtp.Conn command loop", "dataReader", "lineLimitReader", "net/textproto.Reader", "bufio.Reader"},
		Stub:        []string{"net.Listener (SimListener)", "net.Conn (SimConn)", "Backend/Session (SimBackend)", "clock (testing/synctest fake clock)", "SMTP client (raw driver)"},
		Assumptions: []string{"go-smtp is compiled with go1.26.8 for the simulation; the baseline suite uses go1.23.5", "the reference unstuffer follows RFC 5321 4.5.2 with CRLF-only line ends"},
		Required:    []string{"segment_boundary_inside_CRLF_dot", "dotCR_or_CRCRLF", "stuffed_dot_line", "short_read", "client_pauses_longer_than_WriteTimeout_inside_message", "pipelined_envelope_slow_callback_then_message_paced_within_ReadTimeout"},
		Instr:       true,
		QuickRuns:   150000, ThoroughRuns: 4000000,
	})
}
