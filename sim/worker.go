package sim

import (
	"crypto/sha256"
	"encoding/hex"
	"encoding/json"
	"fmt"
	"hash/fnv"
	"os"
	"path/filepath"
	"sort"
	"strconv"
	"strings"
	"sync/atomic"
	"testing"
	"testing/cryptotest"
	"time"
)

// Violation is one breach of a property found in one run.
type Violation struct {
	Rule    string // the oracle clause, stable identifier
	Detail  string // human-readable explanation
	Witness string // short deterministic key of the failing input/history
}

// Stats accumulates what a worker's runs covered.
type Stats struct {
	Evals      int
	Nontrivial map[uint64]struct{}
	Shapes     map[uint64]struct{}
	Faults     map[string]int
	Probes     map[string]int
	Strata     map[string]int
	SimNanos   int64
	Samples    []string
}

func newStats() *Stats {
	return &Stats{Nontrivial: map[uint64]struct{}{}, Shapes: map[uint64]struct{}{}, Faults: map[string]int{}, Probes: map[string]int{}, Strata: map[string]int{}}
}

func hash64(s string) uint64 {
	f := fnv.New64a()
	f.Write([]byte(s))
	return f.Sum64()
}

// Property bundles generator, oracle and coverage classification.
type Property struct {
	ID    string
	Level string
	Rule  string // how cases are generated and what makes one non-trivial
	Race  bool   // also run under the race detector build
	Instr bool   // also run against the copy of the library with inserted yield points
	// Gen draws a scenario from the tape.
	Gen func(t *Tape, tier string) *Scenario
	// Check evaluates the oracles.
	Check func(sc *Scenario, h *History) []Violation
	// Classify records coverage: returns the non-triviality fingerprint ("" if trivial).
	Classify func(sc *Scenario, h *History, st *Stats) string
	// Sweep lists the systematic part of the thorough/quick tier as forced choices.
	Sweep func(tier string) []map[string]int
	// Expand lists, for fault enumeration, the forced choices derived from a base run.
	Expand func(sc *Scenario, h *History, tier string) []map[string]int
	// Components for the evidence file.
	Real, Stub  []string
	Assumptions []string
	// Required lists the probes and fault kinds that every run of a tier's
	// default budget must have hit at least once: a stratum that silently stopped
	// being generated is a broken check, not a clean one (verifctl exits 2).
	Required []string
	// QuickRuns/ThoroughRuns are seeded-run budgets (thorough is also time-boxed).
	QuickRuns, ThoroughRuns int
}

var registry = map[string]*Property{}

func register(p *Property) { registry[p.ID] = p }

// KnownFinding is one entry of known_findings.json.
type KnownFinding struct {
	ID       string `json:"id"`
	Property string `json:"property"`
	Rule     string `json:"rule"`
	Trigger  string `json:"trigger"`
	What     string `json:"what"`
	Fixed    string `json:"fixed,omitempty"` // "fixed: property=.. <commit> <what failed>": suppresses nothing
}

// triggers are the predicates that identify a known finding by the specific
// input or history that fails.
var triggers = map[string]func(sc *Scenario, h *History, v Violation) bool{}

func matchKnown(known []KnownFinding, prop string, sc *Scenario, h *History, v Violation) string {
	for _, k := range known {
		if k.Fixed != "" || k.Property != prop || k.Rule != v.Rule {
			continue
		}
		tr := triggers[k.Trigger]
		if tr != nil && tr(sc, h, v) {
			return k.ID
		}
	}
	return ""
}

// Failure is one reported (minimised) violation.
type Failure struct {
	Property string         `json:"property"`
	Rule     string         `json:"rule"`
	Detail   string         `json:"detail"`
	Witness  string         `json:"witness"`
	Known    string         `json:"known,omitempty"`
	Seed     uint64         `json:"seed"`
	Run      uint64         `json:"run"`
	Tape     []uint64       `json:"tape"`
	Over     map[string]int `json:"over,omitempty"`
	Tier     string         `json:"tier"`
	Scenario []string       `json:"scenario"`
	History  []string       `json:"history"`
	Digest   string         `json:"digest"`
	Shrunk   int            `json:"shrink_executions"`
	File     string         `json:"file,omitempty"`
	Regen    bool           `json:"regen,omitempty"`
	Instr    bool           `json:"instr,omitempty"` // found in the build with inserted yield points; replays only there
}

// instrTier: this process runs the build of the library into which verifctl has inserted yield points.
var instrTier = os.Getenv("VERIF_INSTR") != ""

// WorkerResult is what one worker process reports.
type WorkerResult struct {
	Property   string         `json:"property"`
	Worker     int            `json:"worker"`
	Evals      int            `json:"evals"`
	Nontrivial []uint64       `json:"nontrivial"`
	Shapes     []uint64       `json:"shapes"`
	Faults     map[string]int `json:"faults"`
	Probes     map[string]int `json:"probes"`
	Strata     map[string]int `json:"strata"`
	SimNanos   int64          `json:"sim_nanos"`
	Samples    []string       `json:"samples"`
	Failures   []Failure      `json:"failures"`
	KnownHits  map[string]int `json:"known_hits"`
	ViolCount  int            `json:"viol_count"`
	WallS      float64        `json:"wall_s"`
	Completed  bool           `json:"completed"`
	SweepDone  bool           `json:"sweep_done"`
	SweepSize  int            `json:"sweep_size"`
	HarnessErr string         `json:"harness_err,omitempty"`
	Digests    []string       `json:"digests,omitempty"`   // selftest mode
	ResumeAt   int            `json:"resume_at,omitempty"` // the process ended itself (memory): a fresh one continues at this run
}

type execResult struct {
	sc    *Scenario
	h     *History
	viols []Violation
}

var curRunStart atomic.Int64

// rlog is the race detector's log (race build only).
var rlog *raceLog

// genScenario draws the scenario of one run. In the build with inserted yield points
// (instr tier) the tape also says at which of them the run parks.
func genScenario(p *Property, t *Tape, tier string) *Scenario {
	sc := p.Gen(t, tier)
	sites := autoSites()
	if !instrTier || !p.Instr || len(sites) == 0 {
		return sc
	}
	// The build with yield points in front of every statement of server.go and conn.go at
	// which no mutex can be held: the run parks at one of them every time it is passed, or at
	// a drawn subset of all of them - so that Close, Shutdown, the Accept loop, the connection
	// goroutines and the deliveries can get in between any two statements of each other.
	a := &AutoYieldCfg{}
	if t.Bool() {
		pool := sites
		if t.Bool() {
			// the life cycle of the server and of a connection: Serve, handleConn, Close, Shutdown, stop
			pool = nil
			for _, s := range sites {
				if strings.HasPrefix(s, "@server.go:") {
					pool = append(pool, s)
				}
			}
		}
		a.Site = pool[t.Intn(len(pool))]
		a.Park = Dur(1+t.Intn(12)) * 250 * time.Microsecond
		sc.Strata = append(sc.Strata, "inserted-yield/one-site")
	} else {
		a.Salt = uint64(t.Intn(1 << 20))
		a.Mod = []int{3, 6, 12, 24, 48}[t.Intn(5)]
		a.Park = Dur(1+t.Intn(6)) * 100 * time.Microsecond
		sc.Strata = append(sc.Strata, "inserted-yield/subset")
	}
	// Parks are time the server spends between two statements. They must not add up to
	// anything a timeout of the scenario could notice (a 6 000-octet chunk dribbled octet by
	// octet passes some 20 000 sites; at 0.6 ms each the transfer outlasts ReadTimeout - the
	// first false alarm of this tier in a thorough sweep): the park is scaled so that the
	// segments of the scenario cost at most 0.2 s in all, and the run stops parking
	// altogether after one second of parked time.
	nseg := 0
	for _, c := range sc.Conns {
		for _, st := range c.Steps {
			n := 1
			if len(st.Segs) > 0 {
				min := st.Segs[0]
				for _, z := range st.Segs {
					if z > 0 && z < min {
						min = z
					}
				}
				if min < 1 {
					min = 1
				}
				n = len(st.Data)/min + 1
			}
			nseg += n
		}
		if c.Client != nil {
			nseg += 200
		}
	}
	if lim := 200 * time.Millisecond / Dur(4*nseg+100); a.Park > lim {
		a.Park = lim
		if a.Park < 20*time.Microsecond {
			a.Park = 20 * time.Microsecond
		}
	}
	a.Budget = time.Second
	sc.AutoYield = a
	for i := range sc.Admin {
		// A Shutdown held up at yield points for longer than its deadline finds both its
		// context expired and the connections finished: which of the two its select reports is
		// the runtime's pseudo-random choice, not the schedule's. Short deadlines stay with the
		// builds without inserted yield points.
		if sc.Admin[i].Kind == aShutdown && sc.Admin[i].Timeout > 0 && sc.Admin[i].Timeout < 50*time.Millisecond {
			sc.Admin[i].Timeout = 50 * time.Millisecond
		}
	}
	return sc
}

// execute generates, runs and judges one tape.
func execute(t *testing.T, p *Property, tape *Tape, tier string) execResult {
	sc := genScenario(p, tape, tier)
	if sc.Srv.TLS != tlsNone {
		cryptotest.SetGlobalRandom(t, hashTape(tape))
	}
	curRunStart.Store(time.Now().UnixNano())
	h := runScenario(t, sc)
	curRunStart.Store(0)
	viols := p.Check(sc, h)
	viols = append(viols, harnessChecks(sc, h)...)
	for _, rep := range rlog.poll() {
		h.Races++
		if rep.Harness {
			viols = append(viols, Violation{Rule: "HARNESS", Detail: "data race in harness code:\n" + rep.Text})
			continue
		}
		viols = append(viols, Violation{Rule: "C20.race", Detail: "the Go race detector reports:\n" + clip(rep.Text, 6000), Witness: rep.Key})
	}
	return execResult{sc, h, viols}
}

func hashTape(t *Tape) uint64 {
	f := fnv.New64a()
	var b [8]byte
	for _, v := range t.Vals {
		for i := 0; i < 8; i++ {
			b[i] = byte(v >> (8 * i))
		}
		f.Write(b[:])
	}
	return f.Sum64() | 1
}

// harnessChecks are invariants of the harness itself; a breach is a harness
// fault (exit 2), never a violation of a property.
func harnessChecks(sc *Scenario, h *History) []Violation {
	var out []Violation
	if strings.Contains(h.BubblePanic, "sim.") && !strings.Contains(h.BubblePanic, "deadlock") {
		out = append(out, Violation{Rule: "HARNESS", Detail: "panic in harness: " + h.BubblePanic})
	}
	return out
}

func envInt(name string, def int) int {
	if s := os.Getenv(name); s != "" {
		if v, err := strconv.Atoi(s); err == nil {
			return v
		}
	}
	return def
}

func envU64(name string, def uint64) uint64 {
	if s := os.Getenv(name); s != "" {
		if v, err := strconv.ParseUint(s, 10, 64); err == nil {
			return v
		}
		if v, err := strconv.ParseInt(s, 10, 64); err == nil {
			return uint64(v)
		}
	}
	return def
}

// WorkerMain is the entry point of a worker process (driven by environment
// variables set by verifctl).
func WorkerMain(t *testing.T) {
	propID := os.Getenv("VERIF_PROP")
	if propID == "" {
		t.Skip("VERIF_PROP not set")
	}
	p := registry[propID]
	if p == nil {
		fmt.Fprintf(os.Stderr, "unknown property %s\n", propID)
		os.Exit(2)
	}
	if os.Getenv("VERIF_META") != "" {
		m := map[string]interface{}{"level": p.Level, "rule": p.Rule, "real": p.Real, "stub": p.Stub, "assumptions": p.Assumptions, "race": p.Race, "instr": p.Instr, "exhaustive": p.Expand != nil, "required": p.Required}
		b, _ := json.Marshal(m)
		fmt.Printf("META:%s\n", b)
		return
	}
	cryptotest.SetGlobalRandom(t, 20260926)
	tlsConfigs()
	rlog = openRaceLog()
	if rp := os.Getenv("VERIF_REPLAY"); rp != "" {
		startWatchdog("") // a replayed run may stop the clock like the recorded one did
		replayMain(t, p, rp)
		return
	}
	seed := envU64("VERIF_SEED", 1)
	tier := os.Getenv("VERIF_TIER")
	if tier == "" {
		tier = "quick"
	}
	worker := envInt("VERIF_WORKER", 0)
	nworkers := envInt("VERIF_NWORKERS", 1)
	runs := p.QuickRuns
	if tier == "thorough" {
		runs = p.ThoroughRuns
	}
	runs = envInt("VERIF_RUNS", runs)
	wall := time.Duration(envInt("VERIF_WALL", 600)) * time.Second
	out := os.Getenv("VERIF_OUT")
	replayDir := os.Getenv("VERIF_REPLAYDIR")
	selftest := os.Getenv("VERIF_SELFTEST") != ""

	var known []KnownFinding
	if kp := os.Getenv("VERIF_KNOWN"); kp != "" {
		if b, err := os.ReadFile(kp); err == nil {
			var kf struct {
				Findings []KnownFinding `json:"findings"`
			}
			if err := json.Unmarshal(b, &kf); err != nil {
				fmt.Fprintf(os.Stderr, "bad known findings file: %v\n", err)
				os.Exit(2)
			}
			known = kf.Findings
		}
	}

	var journal *os.File
	if out != "" {
		journal, _ = os.Create(out + ".journal")
	}
	startWatchdog(out)

	st := newStats()
	res := &WorkerResult{Property: propID, Worker: worker, KnownHits: map[string]int{}}
	start := time.Now()
	deadline := start.Add(wall)
	reported := map[string]int{} // rule|known -> minimised count
	var sweep []map[string]int
	if p.Sweep != nil && os.Getenv("VERIF_NOSWEEP") == "" {
		sweep = p.Sweep(tier)
	}
	res.SweepSize = len(sweep)
	total := runs + len(sweep)

	handle := func(run uint64, tape *Tape, er execResult) {
		if len(er.viols) == 0 {
			return
		}
		seen := map[string]bool{}
		for _, v := range er.viols {
			if v.Rule == "HARNESS" {
				res.HarnessErr = v.Detail
				continue
			}
			kid := matchKnown(known, propID, er.sc, er.h, v)
			key := v.Rule + "|" + kid
			if seen[key] {
				continue
			}
			seen[key] = true
			res.ViolCount++
			if kid != "" {
				res.KnownHits[kid]++
			}
			if reported[key] >= 1 {
				continue
			}
			reported[key]++
			// The violation goes on record as found before it is minimised: minimising runs
			// the scenario again and again, and with a broken library one of those runs may
			// stop the clock and take this process down.
			save := func(f *Failure) {
				f.Seed, f.Run, f.Tier = seed, run, tier
				f.Known = kid
				f.Instr = instrTier
				if replayDir != "" {
					name := fmt.Sprintf("%s-%s-s%d-r%d.json", propID, sanitizeName(v.Rule), seed, run)
					if instrTier {
						name = fmt.Sprintf("%s-%s-instr-s%d-r%d.json", propID, sanitizeName(v.Rule), seed, run)
					}
					f.File = filepath.Join(replayDir, name)
					b, _ := json.MarshalIndent(f, "", " ")
					os.WriteFile(f.File, b, 0o644)
				}
			}
			f0 := &Failure{Property: p.ID, Rule: v.Rule, Detail: v.Detail, Witness: v.Witness, Tape: append([]uint64{}, tape.Vals...), Over: mergeOver(tape.Over, nil),
				Scenario: er.sc.Describe(), History: er.h.Render(), Digest: er.h.Digest()}
			if v.Rule == "C20.race" {
				f0.Digest = "race"
			}
			save(f0)
			res.Failures = append(res.Failures, *f0)
			at := len(res.Failures) - 1
			f := minimise(t, p, tape, tier, v, kid, known)
			save(f)
			res.Failures[at] = *f
		}
	}

	account := func(er execResult) {
		st.Evals++
		st.SimNanos += er.h.End - er.h.Start
		fp := ""
		if p.Classify != nil {
			fp = p.Classify(er.sc, er.h, st)
		}
		if fp != "" {
			st.Nontrivial[hash64(fp)] = struct{}{}
		}
		st.Shapes[hash64(er.h.Shape())] = struct{}{}
		for _, s := range er.sc.Strata {
			st.Strata[s]++
		}
		commonFaultCounts(er.sc, er.h, st)
		if len(st.Samples) < 3 && fp != "" {
			st.Samples = append(st.Samples, strings.Join(er.sc.Describe(), "\n"))
		}
	}

	fill := func() {
		res.Evals = st.Evals
		res.Nontrivial, res.Shapes = nil, nil
		for k := range st.Nontrivial {
			res.Nontrivial = append(res.Nontrivial, k)
		}
		for k := range st.Shapes {
			res.Shapes = append(res.Shapes, k)
		}
		res.Faults, res.Probes, res.Strata = st.Faults, st.Probes, st.Strata
		res.SimNanos = st.SimNanos
		res.Samples = st.Samples
		res.WallS = time.Since(start).Seconds()
	}
	// what the watchdog saves when it abandons a run (this goroutine is stuck in
	// that run then, so nothing else touches the counters)
	partialResult = func() []byte {
		fill()
		b, _ := json.Marshal(res)
		return b
	}

	completed := true
	first := worker
	if st := envInt("VERIF_START", 0); st > first {
		// resuming after an abandoned run: keep this worker's stride
		first = st
		for first%nworkers != worker%nworkers {
			first++
		}
	}
	maxRSS := int64(envInt("VERIF_MAXRSS_MB", 2000)) << 20
	for run, iter := first, 0; run < total; run, iter = run+nworkers, iter+1 {
		if time.Now().After(deadline) {
			completed = false
			break
		}
		if iter%32 == 31 && !selftest && residentBytes() > maxRSS {
			// the race-detector build grows by gigabytes per minute: hand over to a fresh process
			completed = false
			res.ResumeAt = run
			break
		}
		var tape *Tape
		if run < len(sweep) {
			tape = NewTape(seed, uint64(run))
			tape.Over = sweep[run]
		} else {
			tape = NewTape(seed, uint64(run))
		}
		if journal != nil {
			journal.WriteAt([]byte(fmt.Sprintf("%-20d %-20d %-200s\n", seed, run, overString(tape.Over))), 0)
		}
		if fs := envInt("VERIF_FAKE_STALL", -1); fs == run {
			curRunStart.Store(time.Now().UnixNano())
			select {} // test aid for the watchdog/resume path: this run never ends
		}
		er := execute(t, p, tape, tier)
		account(er)
		twice(t, p, tape, tier, er, propID)
		if selftest {
			res.Digests = append(res.Digests, er.h.Digest())
			dumpRun(propID, len(res.Digests), er)
		}
		handle(uint64(run), tape, er)
		if p.Expand != nil {
			for _, ov := range p.Expand(er.sc, er.h, tier) {
				if time.Now().After(deadline) {
					completed = false
					break
				}
				t2 := ReplayTape(tape.Vals, mergeOver(tape.Over, ov))
				if journal != nil {
					journal.WriteAt([]byte(fmt.Sprintf("%-20d %-20d %-200s\n", seed, run, overString(t2.Over))), 0)
				}
				er2 := execute(t, p, t2, tier)
				account(er2)
				twice(t, p, t2, tier, er2, propID)
				if selftest {
					res.Digests = append(res.Digests, er2.h.Digest())
					dumpRun(propID, len(res.Digests), er2)
				}
				handle(uint64(run), t2, er2)
			}
		}
		if run >= len(sweep)-nworkers {
			res.SweepDone = true
		}
	}
	if len(sweep) == 0 {
		res.SweepDone = true
	}

	partialResult = nil
	res.Completed = completed
	fill()
	if out != "" {
		b, _ := json.Marshal(res)
		if err := os.WriteFile(out, b, 0o644); err != nil {
			fmt.Fprintf(os.Stderr, "cannot write result: %v\n", err)
			os.Exit(2)
		}
		if journal != nil {
			journal.Close()
			os.Remove(out + ".journal")
		}
	}
}

// twice re-executes a tape in the same process and reports a diverging event
// log (debugging aid for determinism, enabled by VERIF_TWICE=<dir>).
func twice(t *testing.T, p *Property, tape *Tape, tier string, er execResult, prop string) {
	d := os.Getenv("VERIF_TWICE")
	if d == "" {
		return
	}
	er2 := execute(t, p, ReplayTape(tape.Vals, tape.Over), tier)
	if er2.h.Digest() != er.h.Digest() {
		n := time.Now().UnixNano()
		os.WriteFile(filepath.Join(d, fmt.Sprintf("%s-%d-a.txt", prop, n)), []byte(strings.Join(append(er.sc.Describe(), er.h.Render()...), "\n")), 0o644)
		os.WriteFile(filepath.Join(d, fmt.Sprintf("%s-%d-b.txt", prop, n)), []byte(strings.Join(append(er2.sc.Describe(), er2.h.Render()...), "\n")), 0o644)
	}
}

// dumpRun writes the scenario and event log of one execution (selftest
// debugging aid, enabled by VERIF_DUMP_DIR; VERIF_DUMP_ONLY limits it to a
// comma-separated list of execution indexes).
func dumpRun(prop string, idx int, er execResult) {
	d := os.Getenv("VERIF_DUMP_DIR")
	if d == "" {
		return
	}
	if only := os.Getenv("VERIF_DUMP_ONLY"); only != "" && !strings.Contains(","+only+",", fmt.Sprintf(",%d,", idx)) {
		return
	}
	os.WriteFile(filepath.Join(d, fmt.Sprintf("%s-%d-%d.txt", prop, idx, os.Getpid())), []byte(strings.Join(append(er.sc.Describe(), er.h.Render()...), "\n")), 0o644)
}

func overString(ov map[string]int) string {
	if len(ov) == 0 {
		return "-"
	}
	keys := make([]string, 0, len(ov))
	for k := range ov {
		keys = append(keys, k)
	}
	sort.Strings(keys)
	var parts []string
	for _, k := range keys {
		parts = append(parts, fmt.Sprintf("%s=%d", k, ov[k]))
	}
	return strings.Join(parts, ",")
}

func mergeOver(a, b map[string]int) map[string]int {
	out := map[string]int{}
	for k, v := range a {
		out[k] = v
	}
	for k, v := range b {
		out[k] = v
	}
	return out
}

func sanitizeName(s string) string {
	b := []byte(s)
	for i, c := range b {
		if !(c >= 'a' && c <= 'z' || c >= 'A' && c <= 'Z' || c >= '0' && c <= '9' || c == '-' || c == '_') {
			b[i] = '_'
		}
	}
	return string(b)
}

// startWatchdog aborts the process (exit 2: harness trouble, never a
// violation) when a single run makes no progress in real time, which means the
// fake clock is frozen.
// residentBytes is the resident set size of this process (0 if unknown).
func residentBytes() int64 {
	b, err := os.ReadFile("/proc/self/statm")
	if err != nil {
		return 0
	}
	f := strings.Fields(string(b))
	if len(f) < 2 {
		return 0
	}
	n, _ := strconv.ParseInt(f[1], 10, 64)
	return n * int64(os.Getpagesize())
}

var partialResult func() []byte

func startWatchdog(out string) {
	limit := time.Duration(envInt("VERIF_RUN_WALL_LIMIT", 20)) * time.Second
	go func() {
		for {
			time.Sleep(time.Second)
			s := curRunStart.Load()
			if s != 0 && time.Since(time.Unix(0, s)) > limit {
				fmt.Fprintf(os.Stderr, "WATCHDOG: a run exceeded %v of real time (frozen fake clock?)\n", limit)
				buf := make([]byte, 1<<20)
				buf = buf[:runtimeStackAll(buf)]
				os.Stderr.Write(buf)
				if f := partialResult; f != nil && out != "" {
					os.WriteFile(out+".partial", f(), 0o644)
				}
				os.Exit(2)
			}
		}
	}()
}

// ---------------------------------------------------------------------------
// Minimisation: tape-level shrinking that keeps a candidate only if it fails
// the same rule with the same known-finding attribution.

func minimise(t *testing.T, p *Property, tape *Tape, tier string, v Violation, kid string, known []KnownFinding) *Failure {
	best := append([]uint64{}, tape.Vals...)
	over := mergeOver(tape.Over, nil)
	budget := envInt("VERIF_SHRINK_BUDGET", 400)
	if v.Rule == "C20.race" {
		// The detector reports a given race once per process, so the run cannot be
		// re-executed here: report the original tape (it replays in a fresh process).
		tp := ReplayTape(best, over)
		sc := genScenario(p, tp, tier)
		return &Failure{Property: p.ID, Rule: v.Rule, Detail: v.Detail, Witness: v.Witness, Tape: best, Over: over, Scenario: sc.Describe(), History: strings.Split(v.Detail, "\n"), Digest: "race"}
	}
	execs := 0
	var bestER execResult
	var bestV Violation
	try := func(vals []uint64, ov map[string]int) bool {
		if execs >= budget {
			return false
		}
		execs++
		tp := ReplayTape(vals, ov)
		er := execute(t, p, tp, tier)
		for _, x := range er.viols {
			if x.Rule != v.Rule {
				continue
			}
			if matchKnown(known, p.ID, er.sc, er.h, x) != kid {
				continue
			}
			bestER, bestV = er, x
			return true
		}
		return false
	}
	// establish baseline (also provides the rendered history)
	if !try(best, over) {
		// not reproducible: report the original as is
		tp := ReplayTape(best, over)
		er := execute(t, p, tp, tier)
		return &Failure{Property: p.ID, Rule: v.Rule, Detail: v.Detail + " [NOT REPRODUCED ON RE-EXECUTION]", Witness: v.Witness, Tape: best, Over: over,
			Scenario: er.sc.Describe(), History: er.h.Render(), Digest: er.h.Digest(), Shrunk: execs}
	}
	improved := true
	for improved && execs < budget {
		improved = false
		// 1. truncate the tail
		for n := len(best) / 2; n >= 1 && execs < budget; n /= 2 {
			for len(best) > n {
				cand := append([]uint64{}, best[:len(best)-n]...)
				if try(cand, over) {
					best = cand
					improved = true
				} else {
					break
				}
			}
		}
		// 2. delete spans
		for _, span := range []int{8, 4, 2, 1} {
			for i := 0; i+span <= len(best) && execs < budget; {
				cand := append(append([]uint64{}, best[:i]...), best[i+span:]...)
				if try(cand, over) {
					best = cand
					improved = true
				} else {
					i += span
				}
			}
		}
		// 3. zero, then halve, single values
		for i := 0; i < len(best) && execs < budget; i++ {
			if best[i] == 0 {
				continue
			}
			cand := append([]uint64{}, best...)
			cand[i] = 0
			if try(cand, over) {
				best = cand
				improved = true
				continue
			}
			cand = append([]uint64{}, best...)
			cand[i] = best[i] / 2
			if cand[i] != best[i] && try(cand, over) {
				best = cand
				improved = true
			}
		}
		// 4. lower forced choices
		for k, val := range over {
			if val <= 0 || execs >= budget {
				continue
			}
			for _, nv := range []int{0, val / 2, val - 1} {
				if nv == val {
					continue
				}
				ov := mergeOver(over, map[string]int{k: nv})
				if try(best, ov) {
					over = ov
					improved = true
					break
				}
			}
		}
	}
	// strip trailing zeros (an exhausted tape yields zeros anyway)
	for len(best) > 0 && best[len(best)-1] == 0 {
		best = best[:len(best)-1]
	}
	// final confirmation run on the stripped tape
	try(best, over)
	return &Failure{Property: p.ID, Rule: bestV.Rule, Detail: bestV.Detail, Witness: bestV.Witness, Tape: best, Over: over,
		Scenario: bestER.sc.Describe(), History: bestER.h.Render(), Digest: bestER.h.Digest(), Shrunk: execs}
}

// replayMain re-executes a replay file in a fresh process. It exits 1 with a
// VIOLATION line if the violation reproduces (same rule, same digest), 0 if the
// run is clean, 3 if it fails differently.
func replayMain(t *testing.T, p *Property, path string) {
	b, err := os.ReadFile(path)
	if err != nil {
		fmt.Fprintf(os.Stderr, "cannot read replay file: %v\n", err)
		os.Exit(2)
	}
	var f Failure
	if err := json.Unmarshal(b, &f); err != nil {
		fmt.Fprintf(os.Stderr, "bad replay file: %v\n", err)
		os.Exit(2)
	}
	tier := f.Tier
	if tier == "" {
		tier = "quick"
	}
	tp := ReplayTape(f.Tape, f.Over)
	if f.Regen {
		tp = NewTape(f.Seed, f.Run)
		tp.Over = f.Over
	}
	er := execute(t, p, tp, tier)
	for _, l := range er.sc.Describe() {
		fmt.Println("  " + l)
	}
	for _, l := range er.h.Render() {
		fmt.Println("  | " + l)
	}
	same := false
	for _, v := range er.viols {
		fmt.Printf("violation rule=%s detail=%s\n", v.Rule, v.Detail)
		if v.Rule == f.Rule {
			same = true
		}
	}
	dig := er.h.Digest()
	fmt.Printf("digest recorded=%s replayed=%s identical=%v\n", f.Digest, dig, dig == f.Digest)
	switch {
	case same && (dig == f.Digest || f.Digest == "race"):
		fmt.Printf("REPRODUCED exactly\nVIOLATION property=%s replay=%s\n", p.ID, path)
		os.Exit(1)
	case same:
		fmt.Printf("REPRODUCED same rule, different event log\nVIOLATION property=%s replay=%s\n", p.ID, path)
		os.Exit(1)
	case len(er.viols) > 0:
		fmt.Println("DIFFERENT violation on replay")
		os.Exit(3)
	}
	fmt.Println("NOT REPRODUCED: run is clean")
}

// ---------------------------------------------------------------------------

func (h *History) Digest() string {
	s := sha256.New()
	for _, l := range h.Render() {
		s.Write([]byte(l))
		s.Write([]byte{'\n'})
	}
	return hex.EncodeToString(s.Sum(nil))[:24]
}

type rline struct {
	at    int64
	actor int
	sub   int // orders events of one actor class at one instant independently of global arrival order
	seq   int
	text  string
	kind  string
}

func (h *History) lines() []rline {
	var ls []rline
	add := func(at int64, actor int, kind, text string) {
		ls = append(ls, rline{at: at, actor: actor, seq: len(ls), text: text, kind: kind})
	}
	for _, c := range h.Conns {
		if c == nil {
			continue
		}
		a := 10 + 4*c.ID
		for _, w := range c.SentLog {
			add(w.At, a+2, "C", fmt.Sprintf("conn%d C: %q", c.ID, clip(string(c.Sent[w.Off:w.Off+w.N]), 200)))
		}
		for _, r := range c.RecvLog {
			add(r.At, a+1, "S", fmt.Sprintf("conn%d S: %q", c.ID, clip(string(c.Recv[r.Off:r.Off+r.N]), 300)))
		}
		for _, r := range c.C2S.Reads {
			add(r.At, a, "r", fmt.Sprintf("conn%d server read %d octets at %d", c.ID, r.N, r.Off))
		}
		if c.CutDone {
			add(c.CutAt, a+2, "cut", fmt.Sprintf("conn%d client cut after %d octets", c.ID, len(c.Sent)))
		}
		if c.S2C.ClosedAt != 0 {
			add(c.S2C.ClosedAt, a, "sclose", fmt.Sprintf("conn%d server closed its end (wrote %d octets)", c.ID, len(c.S2C.Buf)))
		}
		if c.EndErr != "" {
			add(c.EndAt, a+2, "end", fmt.Sprintf("conn%d client read ended: %s", c.ID, c.EndErr))
		}
		if c.HandshakeDone {
			add(0, a+2, "tls", fmt.Sprintf("conn%d TLS epoch starts at sent=%d recv=%d", c.ID, c.TLSSent, c.TLSRecv))
		}
		if c.Client != nil {
			if c.Client.NewErr != "" {
				add(c.EndAt, a+2, "cli", fmt.Sprintf("conn%d client constructor error: %s", c.ID, c.Client.NewErr))
			}
			for i, r := range c.Client.Results {
				add(r.End, a+2, "cli", fmt.Sprintf("conn%d client op%d %s -> err=%q statuses=%v close2=%v/%q raw=%d/%d stale=%v/%q/%d", c.ID, i, opNames[r.Kind], r.Err, r.Statuses, r.Close2Set, r.Close2Err, r.RawBefore, r.RawAfter, r.StaleSet, r.StaleErr, r.StaleRaw))
			}
		}
	}
	// Backend callbacks are ordered by (instant, connection, order within the
	// connection): Server.Close walks a Go map of connections, so the global
	// order of callbacks of different connections at one instant is not
	// deterministic - and not meaningful.
	perConn := map[int]int{}
	for _, e := range h.Events {
		txt := fmt.Sprintf("conn%d sess%d %s(%s)", e.Conn, e.Sess, e.Kind, clip(e.Arg, 80))
		perConn[e.Conn]++
		sub := (e.Conn+1)*1000000 + perConn[e.Conn]
		addSub := func(at int64, kind, text string) {
			ls = append(ls, rline{at: at, actor: 100, sub: sub, seq: len(ls), text: text, kind: kind})
		}
		_ = addSub
		add = func(at int64, actor int, kind, text string) {
			ls = append(ls, rline{at: at, actor: 100, sub: sub, seq: len(ls), text: text, kind: kind})
		}
		add(e.Begin, 100+e.Seq, "B", txt+" begins")
		if e.Done {
			extra := ""
			if e.Kind == "Data" || e.Kind == "LMTPData" {
				extra = fmt.Sprintf(" read=%d terminal=%q statuses=%v", len(e.Read), e.Terminal, e.StatusSet)
			}
			if e.Kind == "NewSession" {
				extra = fmt.Sprintf(" hostname=%q tls=%v", e.Hostname, e.TLS)
			}
			if e.Panicked {
				extra += " PANICKED"
			}
			add(e.End, 100+e.Seq, "E", txt+fmt.Sprintf(" ends res=%q%s", e.Res, extra))
		}
	}
	add = func(at int64, actor int, kind, text string) {
		ls = append(ls, rline{at: at, actor: actor, seq: len(ls), text: text, kind: kind})
	}
	for i, a := range h.Admin {
		add(a.CallAt, classAdmin+i, "A", fmt.Sprintf("admin%d kind=%d called", i, a.Kind))
		if a.Returned || a.Panic != "" {
			add(a.RetAt, classAdmin+i, "A", fmt.Sprintf("admin%d returned err=%q panic=%q", i, a.Err, a.Panic))
		}
	}
	for _, a := range h.AutoParks {
		ls = append(ls, rline{at: a.At, actor: 250, sub: int(hash64(a.Site) % 1000000), seq: len(ls), text: "parks at inserted yield point " + a.Site, kind: "Y"})
	}
	if h.ServeReturned {
		add(h.ServeAt, classListen, "serve", fmt.Sprintf("Serve returned err=%q", h.ServeErr))
	}
	sort.SliceStable(ls, func(i, j int) bool {
		if ls[i].at != ls[j].at {
			return ls[i].at < ls[j].at
		}
		if ls[i].actor != ls[j].actor {
			return ls[i].actor < ls[j].actor
		}
		if ls[i].sub != ls[j].sub {
			return ls[i].sub < ls[j].sub
		}
		return ls[i].seq < ls[j].seq
	})
	return ls
}

// Render is the merged, fake-time-ordered event log of the run.
func (h *History) Render() []string {
	var out []string
	for _, l := range h.lines() {
		out = append(out, fmt.Sprintf("t=%d %s", l.at-h.Start, l.text))
	}
	for _, l := range h.Logs {
		first := l
		if i := strings.IndexByte(l, '\n'); i >= 0 {
			first = l[:i]
		}
		out = append(out, "log: "+first)
	}
	if h.FinalCloseErr != "" {
		out = append(out, "final Close: "+h.FinalCloseErr)
	}
	if h.Leaked > 0 {
		out = append(out, fmt.Sprintf("leaked goroutines: %d", h.Leaked))
	}
	if h.BubblePanic != "" {
		out = append(out, "bubble: "+h.BubblePanic)
	}
	return out
}

// Shape is the sequence of (actor, event kind) in fake-time order: the
// measure of "distinct interleavings".
func (h *History) Shape() string {
	var sb strings.Builder
	for _, l := range h.lines() {
		a := l.actor
		if a >= 100 {
			a = 100 // backend callbacks: identity is in the kind sequence
		}
		sb.WriteString(strconv.Itoa(a))
		sb.WriteString(l.kind)
		if l.kind == "B" || l.kind == "E" {
			// include the callback name
			f := strings.Fields(l.text)
			if len(f) >= 3 {
				name := f[2]
				if i := strings.IndexByte(name, '('); i >= 0 {
					name = name[:i]
				}
				sb.WriteString(name)
			}
		}
		sb.WriteByte(' ')
	}
	return sb.String()
}

// commonFaultCounts counts the faults that actually fired in a run.
func commonFaultCounts(sc *Scenario, h *History, st *Stats) {
	if len(h.AutoParks) > 0 {
		st.Faults["park_at_inserted_yield_point"] += len(h.AutoParks)
		seen := map[string]bool{}
		for _, a := range h.AutoParks {
			// "@file:Func:n" -> Func
			f := a.Site
			if i := strings.Index(f, ":"); i >= 0 {
				f = f[i+1:]
			}
			if i := strings.LastIndex(f, ":"); i >= 0 {
				f = f[:i]
			}
			if !seen[f] {
				seen[f] = true
				st.Probes["parked_inside:"+f]++
			}
		}
	}
	if h.AutoOverBudget > 0 {
		st.Probes["run_used_up_its_park_budget"]++
	}
	if h.AutoSkipped > 0 {
		st.Probes["inserted_yield_point_passed_with_a_mutex_held_no_park"] += h.AutoSkipped
	}
	for i, c := range h.Conns {
		if c == nil {
			continue
		}
		if c.CutDone {
			switch sc.Conns[i].CutKind {
			case cutRST:
				st.Faults["cut_rst"]++
			case cutHalf:
				st.Faults["cut_halfclose"]++
			case cutStall:
				st.Faults["stall"]++
			default:
				st.Faults["cut_fin"]++
			}
		}
		if len(c.AwaitTO) > 0 {
			st.Faults["client_wait_timed_out"]++
		}
		if c.SrvBlocked > 0 {
			st.Faults["reply_write_blocked_peer_not_reading"]++
		}
		if c.SrvBlockedTO > 0 {
			st.Faults["blocked_write_ended_by_WriteTimeout"]++
		}
		if sc.Conns[i].SrvFaults.FailWriteAt > 0 {
			st.Faults["reply_write_failed"]++
		}
		if len(c.C2S.Reads) > 0 && len(c.C2S.Writes) > 0 && len(c.C2S.Reads) > len(c.C2S.Writes) {
			st.Faults["short_read"]++
		}
		if c.HandshakeErr != "" {
			st.Faults["tls_handshake_failed"]++
		}
		if sc.Conns[i].AcceptErrs > 0 {
			st.Faults["accept_temporary"] += sc.Conns[i].AcceptErrs
		}
	}
	for _, e := range h.Events {
		if e.Panicked {
			st.Faults["backend_panic"]++
		} else if e.Res != "" && e.Kind != "SaslNext" {
			st.Faults["backend_error"]++
		}
		if (e.Kind == "Data" || e.Kind == "LMTPData") && e.Done && !e.SawEOF && e.Terminal == "" {
			st.Faults["backend_partial_read"]++
		}
	}
	for _, l := range h.Logs {
		if strings.HasPrefix(l, "panic serving") {
			st.Faults["recovered_panic_logged"]++
		}
	}
	if sc.AcceptPermanent {
		st.Faults["accept_permanent"]++
	}
	st.Faults["accept_temporary"] += sc.AcceptTailTemp
	for _, a := range sc.Admin {
		if a.Kind == aClose {
			st.Faults["server_close"]++
		} else {
			st.Faults["server_shutdown"]++
		}
	}
}
