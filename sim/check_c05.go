package sim

import (
	"bytes"
	"fmt"
	"strings"
	"time"
)

// C05 - BDAT chunks are framed by octet count and delivered binary-transparent.

type c05Chunk struct {
	Form    int // 0 well-formed, 1 bad LAST token, 2 non-numeric size, 3 too many arguments
	Size    int
	Last    bool
	Payload []byte
}

type c05X struct {
	State         int // 0 valid envelope, 1 no MAIL, 2 every RCPT rejected
	NRcpt         int
	Chunks        []c05Chunk
	Expect        []string // expected reply per position after the envelope: "2"=2xx, "5"=refusal, "F"=final verdict, "250", "221", ...
	Want          []byte   // concatenation of the accepted payloads
	Final         bool     // a LAST chunk was accepted
	Reject        bool     // backend rejects the message
	Aborted       bool     // the transfer was aborted by an over-limit chunk
	Accepted      int      // chunks accepted
	Pre           int      // replies before the first chunk
	NFinal        int
	Stall         int  // 1+index of the chunk inside whose payload the client pauses for longer than ReadTimeout (0: none)
	StallAccepted bool // that chunk is one the server accepts (otherwise its payload is being discarded)
	Early         bool // the backend refuses the message after reading only a part of it (lock-step; only the resumption of commands is judged)
	Paced         bool // timing stratum: pipelined envelope, slow Rcpt callbacks, the first chunk finished 5 s after the server got to it
}

func c05Payload(t *Tape, n int, maxLine int, nb *int) []byte {
	if n == 0 {
		return nil
	}
	var b []byte
	for len(b) < n {
		switch t.Pick(3, 2, 3, 2, 2, 2) {
		case 0:
			b = append(b, line("chunk text %d", len(b))...)
		case 1:
			b = append(b, "\r\n.\r\n"...)
		case 2:
			switch t.Pick(3, 1, 1) {
			case 0:
				b = append(b, line("MAIL FROM:<ok-bait-%d@evil.example>", *nb)...)
			case 1:
				b = append(b, "RSET\r\n"...)
			default:
				b = append(b, "QUIT\r\n"...)
			}
			*nb++
		case 3:
			k := 1 + t.Intn(12)
			for i := 0; i < k; i++ {
				b = append(b, t.Byte())
			}
		case 4:
			b = append(b, "\r\n..leading dots\r\n.\n"...)
		default:
			// LF-free run around or above the line limit
			ml := maxLine
			if ml == 0 {
				ml = 100
			}
			k := []int{ml - 10, ml + 10, 3 * ml}[t.Intn(3)]
			if k < 1 {
				k = 1
			}
			for i := 0; i < k; i++ {
				b = append(b, byte('A'+i%26))
			}
		}
	}
	return b[:n]
}

func genC05(t *Tape, tier string) *Scenario {
	sc := &Scenario{Prop: "C05"}
	sc.Srv = drawCfg(t, cfgOpts{allowTLS: true})
	sc.Srv.MaxRcpt = 0
	if sc.Srv.LMTP && t.Bool() {
		sc.BE.Flavor = beLMTP
	}
	x := &c05X{}
	sc.X = x
	x.State = t.Named("c05state", 3)
	x.NRcpt = 1 + t.Intn(2)
	overLimit := t.Named("c05limit", 2) == 1

	// chunk list
	nch := 1 + t.Intn(5)
	total := 0
	nb := 0
	sizes := make([]int, nch)
	for i := range sizes {
		switch t.Pick(3, 4, 2, 1) {
		case 0:
			sizes[i] = 0
		case 1:
			sizes[i] = 1 + t.Intn(60)
		case 2:
			sizes[i] = 60 + t.Intn(600)
		default:
			sizes[i] = 3000 + t.Intn(6000)
		}
		total += sizes[i]
	}
	if overLimit && total > 4 {
		sc.Srv.MaxMsg = int64(1 + t.Intn(total-1))
	} else if t.Chance(1, 3) {
		sc.Srv.MaxMsg = int64(total + t.Intn(3))
		if sc.Srv.MaxMsg == 0 {
			sc.Srv.MaxMsg = 1
		}
	}
	lastAt := nch - 1
	if t.Chance(1, 5) {
		lastAt = -1 // no LAST at all: the client gives up with RSET
	} else if t.Chance(1, 4) {
		lastAt = t.Intn(nch) // LAST in the middle: later chunks hit a closed transaction
	}
	for i := 0; i < nch; i++ {
		c := c05Chunk{Size: sizes[i], Last: i == lastAt}
		c.Form = t.Pick(12, 1, 1, 1)
		if c.Form >= 2 {
			c.Size = 0
		}
		c.Payload = c05Payload(t, c.Size, sc.Srv.MaxLine, &nb)
		x.Chunks = append(x.Chunks, c)
	}

	if t.Chance(1, 12) {
		// fault stratum: the client pauses inside a chunk until the server's read deadline
		// has passed; the rest of the chunk, which reads like commands, follows later
		j := t.Intn(nch)
		if c := &x.Chunks[j]; c.Form == 0 {
			x.Stall = j + 1
			sc.Srv.MaxMsg = 0
			sc.Srv.ReadTO = 10 * time.Minute
			pre := c05Payload(t, 1+t.Intn(20), sc.Srv.MaxLine, &nb)
			c.Payload = append(pre, "\r\nMAIL FROM:<ok-bait-stall@evil.example>\r\nRCPT TO:<ok-bait-stall@evil.example>\r\nNOOP\r\n"...)
			c.Size = len(c.Payload)
		}
	}
	dp := DataPlan{ReadSizes: drawReadSizes(t), ParkReads: drawParks(t), ParkAfter: t.SmallDur()}
	if t.Chance(1, 4) {
		x.Reject = true
		dp.V = Verdict{Kind: vSMTP, Code: 554, Enh: [3]int{5, 6, 0}, Msg: "chunked message rejected"}
	}
	lock := t.Bool()
	if x.Stall == 0 && total > 1 && t.Chance(1, 8) {
		// fault stratum: the backend gives up on the message in the middle of a chunk whose
		// rest is still on its way; commands resume exactly after the chunk's declared size
		x.Early = true
		x.Reject = true
		dp.ReadMode = readK
		dp.ReadK = t.Intn(total)
		dp.V = Verdict{Kind: vSMTP, Code: 554, Enh: [3]int{5, 6, 0}, Msg: "refused early"}
		lock = true
	}
	sc.BE.Conns = []ConnBackendPlan{{Data: []DataPlan{dp, dp, dp}}}

	w := func() int {
		if lock {
			return 1
		}
		return 0
	}
	steps := []Step{{Kind: kGreetWait, Wait: 1}, {Kind: kHelo, Data: heloLine(sc.Srv), Wait: 1}}
	x.Pre = 2
	if x.State != 1 {
		steps = append(steps, Step{Kind: kMail, Data: line("MAIL FROM:<ok-s@a.example>"), Wait: 1})
		x.Pre++
		for r := 0; r < x.NRcpt; r++ {
			pfx := "ok"
			if x.State == 2 {
				pfx = "r5"
			}
			steps = append(steps, Step{Kind: kRcpt, Data: line("RCPT TO:<%s-r%d@b.example>", pfx, r), Wait: 1})
			x.Pre++
		}
	}
	// reference chunk framer
	envelope := x.State == 0
	var bytesAcc int64
	x.NFinal = 1
	if sc.Srv.LMTP {
		x.NFinal = x.NRcpt
	}
	for ci, c := range x.Chunks {
		var cmd string
		switch c.Form {
		case 0:
			cmd = fmt.Sprintf("BDAT %d", c.Size)
			if c.Last {
				cmd += []string{" LAST", " last", " Last"}[t.Intn(3)]
			}
		case 1:
			cmd = fmt.Sprintf("BDAT %d LAS", c.Size)
		case 2:
			// no usable size: not a number, negative, or beyond any chunk a server can take
			cmd = "BDAT " + []string{"abc", "-1", "18446744073709551606", "9223372036854775808", "99999999999999999999", "0x10"}[t.Intn(6)]
		default:
			cmd = "BDAT 1 2 3"
		}
		glue1 := t.Bool()
		steps = append(steps, Step{Kind: kBdat, Data: []byte(cmd + "\r\n"), Glue: glue1 && len(c.Payload) > 0, Last: c.Last})
		if len(c.Payload) > 0 {
			var special []int
			if sc.Srv.MaxLine > 0 && len(c.Payload) > sc.Srv.MaxLine {
				special = []int{sc.Srv.MaxLine - 1, sc.Srv.MaxLine, sc.Srv.MaxLine + 1}
			}
			steps = append(steps, Step{Kind: kPayload, Data: c.Payload, Segs: drawSegs(t, len(c.Payload), special), Gaps: drawGaps(t), Glue: !lock && t.Bool(), Wait: w()})
			if x.Stall == ci+1 {
				p := &steps[len(steps)-1]
				k := 1 + t.Intn(bytes.Index(c.Payload, []byte("MAIL FROM:<ok-bait-stall"))-1)
				p.Segs = []int{k, len(c.Payload)}
				p.Gaps = []Dur{0, 11 * time.Minute}
			}
		} else {
			steps[len(steps)-1].Wait = w()
		}
		if c.Last && c.Form == 0 && lock {
			steps[len(steps)-1].Wait = -1
		}
		steps = append(steps, Step{Kind: kMarker, Data: []byte("NOOP\r\n"), Glue: !lock && t.Chance(1, 3), Wait: w(), Tag: "noop"})
		// expected outcome
		switch {
		case c.Form >= 2:
			x.Expect = append(x.Expect, "5")
		case !envelope:
			x.Expect = append(x.Expect, "5")
		case c.Form == 1:
			x.Expect = append(x.Expect, "5")
		case sc.Srv.MaxMsg > 0 && bytesAcc+int64(c.Size) > sc.Srv.MaxMsg:
			x.Expect = append(x.Expect, "5")
			envelope = false
			if x.Accepted > 0 {
				x.Aborted = true
			}
		default:
			if x.Stall == ci+1 {
				x.StallAccepted = true
			}
			bytesAcc += int64(c.Size)
			x.Accepted++
			x.Want = append(x.Want, c.Payload...)
			if c.Last {
				x.Final = true
				for k := 0; k < x.NFinal; k++ {
					x.Expect = append(x.Expect, "F")
				}
				envelope = false
			} else {
				x.Expect = append(x.Expect, "250")
			}
		}
		x.Expect = append(x.Expect, "250") // NOOP marker
	}
	steps = append(steps,
		Step{Kind: kRset, Data: []byte("RSET\r\n"), Wait: w()},
		Step{Kind: kMarker, Data: line("MAIL FROM:<ok-marker@a.example>"), Wait: w(), Tag: "mail"},
		Step{Kind: kQuit, Data: []byte("QUIT\r\n"), Wait: w()})
	x.Expect = append(x.Expect, "250", "250", "221")
	if c0 := x.Chunks[0]; x.Stall == 0 && !x.Early && x.State == 0 && c0.Form == 0 && !c0.Last && len(c0.Payload) >= 2 && sc.Srv.ReadTO == 0 && t.Chance(1, 10) {
		// timing stratum: MAIL, RCPT and the first BDAT line arrive in one segment together
		// with the beginning of the chunk, every Rcpt callback takes 7 s, and the rest of the
		// chunk comes 5 s after the server has got to it. ReadTimeout is 10 s: the time a
		// callback takes is not the client's, nothing is late.
		iB := -1
		for i := range steps {
			if steps[i].Kind == kBdat {
				iB = i
				break
			}
		}
		if iB > 0 && steps[iB+1].Kind == kPayload {
			x.Paced = true
			sc.Srv.ReadTO = 10 * time.Second
			sc.BE.Conns[0].ParkRcpt = 7 * time.Second
			pend, nrep := 0, 0
			for i := 2; i <= iB; i++ {
				nrep += steps[i].Wait
				steps[i].Glue, steps[i].Wait = true, 0
				pend += len(steps[i].Data)
			}
			p := &steps[iB+1]
			p.Segs = []int{pend + 1 + t.Intn(len(c0.Payload)-1), pend + len(c0.Payload)}
			p.Gaps = []Dur{0, Dur(7*x.NRcpt+5) * time.Second}
			if lock {
				p.Wait += nrep
			}
			// nobody else takes time: no other pauses on the client's side, and the backend
			// reads without pauses
			for i := range steps {
				if i != iB+1 {
					steps[i].Gaps = nil
				}
			}
			for i := range sc.BE.Conns[0].Data {
				sc.BE.Conns[0].Data[i].ParkReads, sc.BE.Conns[0].Data[i].ParkAfter = nil, 0
			}
		}
	}
	// the last glued step must flush
	cs := ConnScript{Lat: drawLat(t), SrvCaps: drawCaps(t), Steps: steps}
	if x.Paced {
		cs.SrvCaps = nil
	}
	cs.defaults()
	sc.Conns = []ConnScript{cs}
	sc.Strata = []string{fmt.Sprintf("state%d/limit%v/lock%v", x.State, overLimit, lock)}
	return sc
}

func checkC05(sc *Scenario, h *History) []Violation {
	var out []Violation
	x := sc.X.(*c05X)
	ch := h.Conns[0]
	var cl []string
	for _, c := range x.Chunks {
		cl = append(cl, fmt.Sprintf("%d/%d/%v", c.Form, c.Size, c.Last))
	}
	wit := fmt.Sprintf("state=%d chunks=%v limit=%d maxline=%d lmtp=%v", x.State, cl, sc.Srv.MaxMsg, sc.Srv.MaxLine, sc.Srv.LMTP)
	for _, e := range h.Events {
		if (e.Kind == "Mail" || e.Kind == "Rcpt") && strings.Contains(e.Arg, "bait") {
			out = append(out, Violation{Rule: "C05.payload-executed", Detail: fmt.Sprintf("chunk payload was executed as a command: backend %s(%q)", e.Kind, e.Arg), Witness: wit})
			return out
		}
	}
	if x.Stall > 0 {
		// After the injected timeout only "never executed as a command" is judged.
		return out
	}
	if x.Early {
		// Which chunk meets the backend's early refusal is a matter of timing; what is judged
		// is that commands resume exactly behind every chunk: each NOOP placed after a chunk
		// is answered 250, the MAIL after the chunks reaches the backend, QUIT gets 221.
		timedOut := map[int]bool{}
		for _, i := range ch.AwaitTO {
			timedOut[i] = true
		}
		for i, st := range sc.Conns[0].Steps {
			want := 0
			switch {
			case st.Kind == kMarker && st.Tag == "noop", st.Kind == kMarker && st.Tag == "mail", st.Kind == kRset:
				want = 250
			case st.Kind == kQuit:
				want = 221
			}
			if want == 0 {
				continue
			}
			if ch.StepOff[i] < 0 || timedOut[i] || ch.StepCode[i] != want {
				out = append(out, Violation{Rule: "C05.resume", Detail: fmt.Sprintf("the backend refused the message after %d octets; step %d (%q) behind a chunk was answered %d (sent=%v, timed out=%v), expected %d", sc.BE.Conns[0].Data[0].ReadK, i, clip(string(st.Data), 30), ch.StepCode[i], ch.StepOff[i] >= 0, timedOut[i], want), Witness: wit})
				return out
			}
		}
		found := false
		for _, e := range h.Events {
			if e.Kind == "Mail" && e.Arg == "ok-marker@a.example" {
				found = true
			}
		}
		if !found {
			out = append(out, Violation{Rule: "C05.marker-lost", Detail: "the MAIL marker after the chunks never reached the backend", Witness: wit})
		}
		return out
	}
	replies, _ := parseReplies(ch.Recv)
	var codes []string
	for _, r := range replies {
		codes = append(codes, fmt.Sprint(r.Code))
	}
	if len(replies) != x.Pre+len(x.Expect) {
		out = append(out, Violation{Rule: "C05.reply-count", Detail: fmt.Sprintf("expected %d replies (%d before the first chunk, then %v), got %d: %s", x.Pre+len(x.Expect), x.Pre, x.Expect, len(replies), strings.Join(codes, " ")), Witness: wit})
		return out
	}
	for i, e := range x.Expect {
		r := replies[x.Pre+i]
		ok := true
		switch e {
		case "5":
			ok = r.Code/100 == 5
		case "F":
			if x.Reject {
				ok = r.Code == 554
			} else {
				ok = r.Code == 250
			}
		default:
			ok = fmt.Sprint(r.Code) == e
		}
		if !ok {
			out = append(out, Violation{Rule: "C05.reply", Detail: fmt.Sprintf("reply %d after the envelope: expected %s, got %s (expected %v, got %s)", i, e, r, x.Expect, strings.Join(codes[x.Pre:], " ")), Witness: wit})
			return out
		}
	}
	found := false
	for _, e := range h.Events {
		if e.Kind == "Mail" && e.Arg == "ok-marker@a.example" {
			found = true
		}
	}
	if !found {
		out = append(out, Violation{Rule: "C05.marker-lost", Detail: "the MAIL marker after the chunks never reached the backend", Witness: wit})
	}
	evs := dataEvents(h, 0)
	started := x.Accepted > 0
	if !started {
		if len(evs) != 0 {
			out = append(out, Violation{Rule: "C05.data-calls", Detail: fmt.Sprintf("no chunk was accepted but Data was called %d times", len(evs)), Witness: wit})
		}
		return out
	}
	if len(evs) == 0 && len(x.Want) == 0 && !x.Final {
		// Only empty chunks were accepted and the message never ended: there
		// was nothing to hand over, so no Data call is required.
		return out
	}
	if len(evs) != 1 {
		out = append(out, Violation{Rule: "C05.data-calls", Detail: fmt.Sprintf("expected exactly one Data call for the chunked message, got %d", len(evs)), Witness: wit})
		return out
	}
	ev := evs[0]
	if !ev.Done {
		out = append(out, Violation{Rule: "C05.data-returned", Detail: "Data never returned", Witness: wit})
		return out
	}
	if !bytes.Equal(ev.Read, x.Want) {
		d := 0
		for d < len(ev.Read) && d < len(x.Want) && ev.Read[d] == x.Want[d] {
			d++
		}
		out = append(out, Violation{Rule: "C05.octets", Detail: fmt.Sprintf("backend read %d octets, the accepted payloads are %d octets; first difference at %d", len(ev.Read), len(x.Want), d), Witness: wit})
		return out
	}
	if x.Final && !ev.SawEOF {
		out = append(out, Violation{Rule: "C05.eof", Detail: fmt.Sprintf("after the LAST chunk the reader ended with %q, not EOF", ev.Terminal), Witness: wit})
	}
	if !x.Final && ev.SawEOF {
		out = append(out, Violation{Rule: "C05.eof", Detail: "the reader reported EOF although no LAST chunk was accepted", Witness: wit})
	}
	return out
}

func classifyC05(sc *Scenario, h *History, st *Stats) string {
	x := sc.X.(*c05X)
	nontrivial := false
	var cl []string
	if x.Early {
		if evs := dataEvents(h, 0); len(evs) > 0 && evs[0].Done && len(evs[0].Read) < len(x.Want) {
			st.Faults["backend_refuses_with_a_part_of_the_chunk_unread"]++
		}
	}
	if x.Paced {
		st.Probes["pipelined_envelope_slow_callbacks_chunk_paced_within_ReadTimeout"]++
	}
	if x.Stall > 0 {
		if x.StallAccepted {
			st.Faults["client_stalls_past_read_deadline_inside_accepted_chunk"]++
		} else {
			st.Faults["client_stalls_past_read_deadline_inside_refused_chunk"]++
		}
	}
	for _, c := range x.Chunks {
		if c.Size == 0 && c.Form == 0 {
			st.Probes["zero_size_chunk"]++
			nontrivial = true
		}
		if bytes.Contains(c.Payload, []byte("\r\n.\r\n")) {
			st.Probes["payload_contains_end_marker"]++
			nontrivial = true
		}
		if bytes.Contains(c.Payload, []byte("bait")) {
			st.Probes["payload_contains_bait_command"]++
			nontrivial = true
		}
		if c.Form != 0 {
			st.Probes["malformed_bdat"]++
			nontrivial = true
		}
		if sc.Srv.MaxLine > 0 && longestRun(c.Payload) > sc.Srv.MaxLine {
			st.Probes["payload_LF_free_run_over_line_limit"]++
			nontrivial = true
		}
		cl = append(cl, fmt.Sprintf("%d/%d/%v/%s", c.Form, c.Size, c.Last, classString(c.Payload, 12)))
	}
	if x.State != 0 {
		st.Probes["bdat_refused_without_envelope"]++
		nontrivial = true
	}
	if x.Aborted {
		st.Probes["over_limit_chunk_aborts_transfer"]++
	}
	// BDAT line and payload pulled by the server in one raw read
	steps := sc.Conns[0].Steps
	for i, s := range steps {
		if s.Kind == kBdat && s.Glue && i+1 < len(steps) && steps[i+1].Kind == kPayload {
			st.Probes["bdat_line_and_payload_in_one_segment"]++
			if sc.Srv.MaxLine > 0 && longestRun(steps[i+1].Data) > sc.Srv.MaxLine {
				st.Probes["bdat_line_and_over_limit_run_in_one_segment"]++
			}
			break
		}
	}
	if !nontrivial {
		return ""
	}
	return fmt.Sprintf("%d|%v|%d|%v|%v", x.State, cl, sc.Srv.MaxMsg, sc.Srv.LMTP, sc.Conns[0].Steps[2].Wait)
}

func longestRun(b []byte) int {
	best, cur := 0, 0
	for _, c := range b {
		if c == '\n' {
			cur = 0
			continue
		}
		cur++
		if cur > best {
			best = cur
		}
	}
	return best
}

func init() {
	register(&Property{
		ID: "C05", Level: "exploration",
		Rule:     "a message cut into 1-5 BDAT chunks (sizes 0..9000, LAST on any, none or the final chunk, well-formed / bad LAST token / non-numeric, negative or 64-bit-overflowing size / too many arguments) in session states {valid envelope, no MAIL, every RCPT rejected} and with MaxMessageBytes below or around the total; payloads mix text, CRLF.CRLF, bait commands, binary, leading dots and LF-free runs around and above MaxLineLength; a NOOP marker after every chunk, then RSET, a MAIL marker and QUIT; lock-step or fully pipelined with drawn segmentation (BDAT line glued to its payload, next command glued to the payload's tail). Expected replies come from a small reference chunk framer. Non-trivial: zero-size chunk, payload with end marker/bait/over-limit run, malformed or refused BDAT; distinct by (state, chunk forms/sizes/payload classes, limit, mode, discipline). Fault stratum: the client pauses past ReadTimeout inside a chunk (accepted or being discarded) whose tail reads MAIL/RCPT/NOOP. Timing stratum: envelope, first BDAT line and the beginning of the chunk in one segment, Rcpt callbacks of 7 s each, the rest of the chunk 5 s after the server got to it, ReadTimeout 10 s - nothing is late.",
		Gen:      genC05,
		Check:    checkC05,
		Classify: classifyC05,
		Sweep: func(tier string) []map[string]int {
			reps := 50
			if tier == "thorough" {
				reps = 5000
			}
			var out []map[string]int
			for r := 0; r < reps; r++ {
				for s := 0; s < 3; s++ {
					for l := 0; l < 2; l++ {
						out = append(out, map[string]int{"c05state": s, "c05limit": l})
					}
				}
			}
			return out
		},
		Real:        []string{"smtp.Server.Serve/handleConn", "smtp.Conn.handleBdat and delivery goroutine", "lineLimitReader", "io.Pipe", "net/textproto", "bufio"},
		Stub:        []string{"net.Listener (SimListener)", "net.Conn (SimConn)", "Backend/Session/LMTPSession (SimBackend)", "clock (synctest)", "SMTP client (raw driver)"},
		Assumptions: []string{"a BDAT without a usable size declares nothing to skip: no payload is sent after it and only its single reply and the next marker are judged", "refusal replies are judged to be 5xx, not for their exact code"},
		Required:    []string{"pipelined_envelope_slow_callbacks_chunk_paced_within_ReadTimeout", "bdat_line_and_over_limit_run_in_one_segment", "bdat_refused_without_envelope", "zero_size_chunk", "payload_contains_bait_command", "payload_contains_end_marker", "over_limit_chunk_aborts_transfer", "malformed_bdat", "client_stalls_past_read_deadline_inside_accepted_chunk", "client_stalls_past_read_deadline_inside_refused_chunk", "backend_refuses_with_a_part_of_the_chunk_unread"},
		Instr:       true,
		QuickRuns:   120000, ThoroughRuns: 3000000,
	})
}
