package sim

import (
	"bytes"
	"fmt"
	"strings"
	"time"
)

// C06 - MaxMessageBytes bounds what a backend is handed and what is accepted.

type c06X struct {
	N           int
	Size        int
	Msg         []byte
	ViaBdat     bool
	Chunks      []int // chunk sizes (BDAT)
	LastOnEmpty bool
	SizeArg     string // "" = no SIZE parameter
	SizeKind    int    // 0 none, 1 N-1, 2 N, 3 N+1, 4 huge (32 bit), 5 huge (11 digits), 6 malformed
	SizeZeros   bool   // the SIZE value is written with leading zeros
	MailOK      bool   // reference: MAIL must be accepted
	Expect      []string
	Pre         int
	Huge        string // a BDAT command with this size (>= 2^63, no payload) in front of the message's chunks ("" = none); only the bound is judged then
	Prelude     int    // an earlier transaction on the same connection: 0 none, 1 BDAT completed within the limit, 2 a chunk then RSET, 3 BDAT refused for its size, 4 DATA completed within the limit
	MailIdx     int    // index of the reply to the judged MAIL
	ReadOn      bool   // DATA: the client pauses past ReadTimeout inside the message, the backend takes the timeout as temporary and reads on
	DataIdx     int    // index of the judged message among the backend\'s Data calls
	NFinal      int
}

func mkMessage(size int) []byte {
	b := make([]byte, size)
	for i := range b {
		b[i] = byte('a' + i%26)
	}
	// CRLF every 62 octets and at the end
	for i := 60; i+1 < size-2; i += 62 {
		b[i], b[i+1] = '\r', '\n'
	}
	if size >= 2 {
		b[size-2], b[size-1] = '\r', '\n'
	}
	return b
}

func genC06(t *Tape, tier string) *Scenario {
	sc := &Scenario{Prop: "C06"}
	sc.Srv = drawCfg(t, cfgOpts{allowTLS: true})
	sc.Srv.MaxRcpt = 0
	if sc.Srv.LMTP && t.Bool() {
		sc.BE.Flavor = beLMTP
	}
	x := &c06X{}
	sc.X = x
	// limit
	nIdx := t.Named("c06n", 18) // 0..16 -> 8..24, 17 -> larger
	switch {
	case nIdx <= 16:
		x.N = 8 + nIdx
	default:
		x.N = []int{32, 48, 64, 5000}[t.Intn(4)]
	}
	sc.Srv.MaxMsg = int64(x.N)
	// size: N-2..N+2, or far above
	sIdx := t.Named("c06size", 6)
	if sIdx < 5 {
		x.Size = x.N - 2 + sIdx
	} else {
		x.Size = x.N*10 + t.Intn(50)
	}
	x.Msg = mkMessage(x.Size)
	form := t.Named("c06form", 5) // 0 DATA, 1..4 BDAT with that many chunks
	x.ViaBdat = form > 0
	if x.ViaBdat {
		rest := x.Size
		for i := 1; i < form; i++ {
			c := t.Intn(rest + 1)
			x.Chunks = append(x.Chunks, c)
			rest -= c
		}
		x.Chunks = append(x.Chunks, rest)
		x.LastOnEmpty = t.Chance(1, 4)
		if x.LastOnEmpty {
			x.Chunks = append(x.Chunks, 0)
		}
	}
	x.SizeKind = t.Pick(6, 1, 1, 1, 1, 1, 1)
	x.MailOK = true
	switch x.SizeKind {
	case 1:
		x.SizeArg = fmt.Sprint(x.N - 1)
	case 2:
		x.SizeArg = fmt.Sprint(x.N)
	case 3:
		x.SizeArg = fmt.Sprint(x.N + 1)
		x.MailOK = false
	case 4:
		x.SizeArg = "4294967295"
		x.MailOK = false
	case 5:
		x.SizeArg = []string{"99999999999", "99999999999999999999"}[t.Intn(2)]
		x.MailOK = false
	case 6:
		x.SizeArg = []string{"abc", "-1", "12x", ""}[t.Intn(4)]
		x.MailOK = false
	}
	if x.SizeKind >= 1 && x.SizeKind <= 3 && t.Chance(1, 3) {
		// size-value is 1*20DIGIT (RFC 1870): leading zeros are legal and change nothing
		x.SizeZeros = true
		if t.Bool() {
			x.SizeArg = strings.Repeat("0", 1+t.Intn(3)) + x.SizeArg
		} else {
			x.SizeArg = strings.Repeat("0", 20-len(x.SizeArg)) + x.SizeArg
		}
	}
	dp := DataPlan{ReadSizes: drawReadSizes(t), ParkReads: drawParks(t)}
	if t.Chance(1, 6) {
		dp.ReadMode = readCopy // a backend that copies the message with io.Copy
	}
	sc.BE.Conns = []ConnBackendPlan{{Data: []DataPlan{dp, dp}}}

	lock := t.Bool()
	w := func() int {
		if lock {
			return 1
		}
		return 0
	}
	mail := "MAIL FROM:<ok-s@a.example>"
	if x.SizeKind != 0 {
		mail += " SIZE=" + x.SizeArg
	}
	steps := []Step{{Kind: kGreetWait, Wait: 1}, {Kind: kHelo, Data: heloLine(sc.Srv), Wait: 1}}
	x.Pre = 2
	// an earlier transaction on the same connection: the octets it transferred count
	// for nothing in the one that is judged
	x.Prelude = t.Named("c06prelude", 5)
	if x.Prelude > 0 {
		s1 := 1 + t.Intn(minInt(x.N, 60)) // (one line: stays below every line limit in use)
		early := bytes.Repeat([]byte("P"), s1)
		if s1 >= 2 {
			early[s1-2], early[s1-1] = '\r', '\n'
		}
		steps = append(steps, Step{Kind: kMail, Data: line("MAIL FROM:<ok-early@a.example>"), Wait: 1},
			Step{Kind: kRcpt, Data: line("RCPT TO:<ok-r@b.example>"), Wait: 1})
		x.Pre += 2
		switch x.Prelude {
		case 1:
			steps = append(steps, Step{Kind: kBdat, Data: line("BDAT %d LAST", s1), Glue: true, Last: true}, Step{Kind: kPayload, Data: early, Wait: -1})
			x.Pre++
			x.DataIdx = 1
		case 2:
			steps = append(steps, Step{Kind: kBdat, Data: line("BDAT %d", s1), Glue: true}, Step{Kind: kPayload, Data: early, Wait: 1},
				Step{Kind: kRset, Data: []byte("RSET\r\n"), Wait: 1})
			x.Pre += 2
			x.DataIdx = 1
		case 3:
			big := bytes.Repeat([]byte("Q"), x.N+3)
			steps = append(steps, Step{Kind: kBdat, Data: line("BDAT %d LAST", x.N+3), Glue: true}, Step{Kind: kPayload, Data: big, Wait: 1})
			x.Pre++
		default:
			body := append(append([]byte{}, early...), '\r', '\n', '.', '\r', '\n')
			if s1 >= 2 {
				body = append(append([]byte{}, early...), '.', '\r', '\n')
			}
			steps = append(steps, Step{Kind: kData, Data: []byte("DATA\r\n"), Wait: 1}, Step{Kind: kBody, Data: body, Need: 354, Wait: -1})
			x.Pre += 2
			x.DataIdx = 1
		}
		if x.DataIdx == 1 {
			sc.BE.Conns[0].Data = append([]DataPlan{{}}, sc.BE.Conns[0].Data...)
		}
	}
	x.MailIdx = x.Pre
	steps = append(steps, Step{Kind: kMail, Data: []byte(mail + "\r\n"), Wait: 1})
	x.Pre++
	x.NFinal = 1
	if x.MailOK {
		steps = append(steps, Step{Kind: kRcpt, Data: line("RCPT TO:<ok-r@b.example>"), Wait: 1})
		x.Pre++
		if !x.ViaBdat {
			stream := append(append([]byte{}, x.Msg...), ".\r\n"...)
			steps = append(steps, Step{Kind: kData, Data: []byte("DATA\r\n"), Wait: 1},
				Step{Kind: kBody, Data: stream, Need: 354, Segs: drawSegs(t, len(stream), []int{x.N - 1, x.N, x.N + 1, len(stream) - 3}), Gaps: drawGaps(t), Wait: w() * -1})
			if x.Size > 3 && t.Chance(1, 10) {
				// fault stratum: a read of the backend returns some octets together with a timeout
				// (the client pauses past ReadTimeout), and the backend goes on reading after
				// pushing the deadline forward: the budget still counts what it was handed
				x.ReadOn = true
				sc.Srv.ReadTO = 10 * time.Minute
				b := &steps[len(steps)-1]
				k := 1 + t.Intn(x.Size-2)
				b.Segs = []int{k, len(stream)}
				b.Gaps = []Dur{0, 11 * time.Minute}
				b.Wait = -1
				for i := range sc.BE.Conns[0].Data {
					sc.BE.Conns[0].Data[i].ReadOnAfterTimeout = true
				}
			}
			x.Expect = append(x.Expect, "354")
			if x.Size > x.N {
				x.Expect = append(x.Expect, "552")
			} else {
				x.Expect = append(x.Expect, "250")
			}
		} else {
			off := 0
			sum := 0
			open := true
			if t.Chance(1, 6) {
				// A chunk size that does not fit 63 bits, announced without a payload: whatever the
				// server makes of it (501, 552, end of the transaction), it must not buy octets.
				x.Huge = []string{"9223372036854775808", "18446744073709551615", fmt.Sprint(uint64(1<<64 - 1 - uint64(50+t.Intn(200)))), fmt.Sprint(uint64(1<<63) + uint64(x.N))}[t.Intn(4)]
				steps = append(steps, Step{Kind: kBdat, Data: line("BDAT %s", x.Huge), Wait: w()})
			}
			for i, c := range x.Chunks {
				last := i == len(x.Chunks)-1
				cmd := fmt.Sprintf("BDAT %d", c)
				if last {
					cmd += " LAST"
				}
				steps = append(steps, Step{Kind: kBdat, Data: []byte(cmd + "\r\n"), Glue: c > 0 && t.Bool(), Last: last})
				if c > 0 {
					steps = append(steps, Step{Kind: kPayload, Data: x.Msg[off : off+c], Segs: drawSegs(t, c, nil), Wait: w()})
				} else {
					steps[len(steps)-1].Wait = w()
				}
				off += c
				switch {
				case !open:
					x.Expect = append(x.Expect, "5")
				case sum+c > x.N:
					x.Expect = append(x.Expect, "552")
					open = false
				default:
					sum += c
					x.Expect = append(x.Expect, "250")
				}
			}
		}
	}
	// probes: DATA must be refused (no envelope), then a fresh MAIL is accepted
	steps = append(steps,
		Step{Kind: kData, Data: []byte("DATA\r\n"), Wait: w(), Tag: "probe"},
		Step{Kind: kMarker, Data: line("MAIL FROM:<ok-marker@a.example>"), Wait: w()},
		Step{Kind: kQuit, Data: []byte("QUIT\r\n"), Wait: w()})
	x.Expect = append(x.Expect, "5", "250", "221")
	cs := ConnScript{Lat: drawLat(t), SrvCaps: drawCaps(t), Steps: steps}
	cs.defaults()
	sc.Conns = []ConnScript{cs}
	sc.Strata = []string{fmt.Sprintf("form%d/size%+d/sizearg%d", form, minInt(sIdx-2, 3), x.SizeKind)}
	return sc
}

func checkC06(sc *Scenario, h *History) []Violation {
	var out []Violation
	x := sc.X.(*c06X)
	ch := h.Conns[0]
	wit := fmt.Sprintf("N=%d size=%d bdat=%v chunks=%v sizearg=%q lmtp=%v prelude=%d", x.N, x.Size, x.ViaBdat, x.Chunks, x.SizeArg, sc.Srv.LMTP, x.Prelude)
	replies, _ := parseReplies(ch.Recv)
	var codes []string
	for _, r := range replies {
		codes = append(codes, fmt.Sprint(r.Code))
	}
	// (3) SIZE parameter
	mails := eventsOf(h, 0, "Mail")
	if len(replies) > x.MailIdx {
		mr := replies[x.MailIdx]
		switch {
		case x.SizeKind >= 3 && x.SizeKind <= 5:
			for _, m := range mails {
				if m.Arg == "ok-s@a.example" {
					out = append(out, Violation{Rule: "C06.size-param", Detail: fmt.Sprintf("MAIL with SIZE=%s > %d reached the backend", x.SizeArg, x.N), Witness: wit})
				}
			}
			if mr.Code != 552 {
				out = append(out, Violation{Rule: "C06.size-param-code", Detail: fmt.Sprintf("MAIL with SIZE=%s > %d answered %s, expected 552", x.SizeArg, x.N, mr), Witness: wit})
			}
		case x.SizeKind == 6:
			if mr.Code/100 != 5 {
				out = append(out, Violation{Rule: "C06.size-param", Detail: fmt.Sprintf("MAIL with malformed SIZE=%q answered %s", x.SizeArg, mr), Witness: wit})
			}
		default:
			if mr.Code != 250 {
				out = append(out, Violation{Rule: "C06.size-param", Detail: fmt.Sprintf("MAIL with SIZE=%q <= %d answered %s", x.SizeArg, x.N, mr), Witness: wit})
			}
		}
	}
	if len(out) > 0 {
		return out
	}
	if x.ReadOn || x.Huge != "" {
		// only the bound itself is judged: never more than N octets, never complete when longer
		evs := dataEvents(h, 0)
		if len(evs) > x.DataIdx {
			ev := evs[x.DataIdx]
			if len(ev.Read) > x.N {
				out = append(out, Violation{Rule: "C06.bound", Detail: fmt.Sprintf("backend read %d octets with a limit of %d (readOnAfterTimeout=%v, BDAT %s first)", len(ev.Read), x.N, x.ReadOn, x.Huge), Witness: wit})
			}
			if !bytes.HasPrefix(x.Msg, ev.Read) {
				out = append(out, Violation{Rule: "C06.octets", Detail: "backend octets are not a prefix of the message", Witness: wit})
			}
			if x.Size > x.N && ev.SawEOF {
				out = append(out, Violation{Rule: "C06.over-limit-complete", Detail: fmt.Sprintf("a message of %d octets was presented as complete (EOF) under a limit of %d", x.Size, x.N), Witness: wit})
			}
		}
		return out
	}
	if len(replies) != x.Pre+len(x.Expect) {
		out = append(out, Violation{Rule: "C06.reply-count", Detail: fmt.Sprintf("expected %d replies (%d then %v), got %d: %s", x.Pre+len(x.Expect), x.Pre, x.Expect, len(replies), strings.Join(codes, " ")), Witness: wit})
		return out
	}
	for i, e := range x.Expect {
		r := replies[x.Pre+i]
		ok := fmt.Sprint(r.Code) == e
		if e == "5" {
			ok = r.Code/100 == 5
		}
		if !ok {
			rule := "C06.reply"
			if e == "250" && r.Code == 552 {
				rule = "C06.within-limit-refused"
			}
			if e == "552" {
				rule = "C06.over-limit-accepted"
			}
			out = append(out, Violation{Rule: rule, Detail: fmt.Sprintf("reply %d after the envelope: expected %s, got %s (expected %v, got %s)", i, e, r, x.Expect, strings.Join(codes[x.Pre:], " ")), Witness: wit})
			return out
		}
	}
	if !x.MailOK {
		return out
	}
	evs := dataEvents(h, 0)
	if len(evs) <= x.DataIdx {
		if x.ViaBdat {
			// no Data call is due if not a single octet was accepted before the
			// transfer was refused (empty chunks hand nothing over)
			sum, handed := 0, false
			for i, c := range x.Chunks {
				if sum+c > x.N {
					break
				}
				sum += c
				if c > 0 || i == len(x.Chunks)-1 {
					handed = true
				}
			}
			if !handed {
				return out
			}
		}
		out = append(out, Violation{Rule: "C06.data-calls", Detail: "Data was never called", Witness: wit})
		return out
	}
	ev := evs[x.DataIdx]
	// (1) never more than N octets
	if len(ev.Read) > x.N {
		out = append(out, Violation{Rule: "C06.bound", Detail: fmt.Sprintf("backend read %d octets with a limit of %d", len(ev.Read), x.N), Witness: wit})
	}
	if !bytes.HasPrefix(x.Msg, ev.Read) {
		out = append(out, Violation{Rule: "C06.octets", Detail: "backend octets are not a prefix of the message", Witness: wit})
	}
	if x.Size > x.N {
		// (2) never reported complete
		if ev.SawEOF {
			out = append(out, Violation{Rule: "C06.over-limit-complete", Detail: fmt.Sprintf("a message of %d octets was presented as complete (EOF) under a limit of %d", x.Size, x.N), Witness: wit})
		}
	} else {
		// (4) exactly as without a limit
		if !bytes.Equal(ev.Read, x.Msg) || !ev.SawEOF {
			out = append(out, Violation{Rule: "C06.within-limit", Detail: fmt.Sprintf("a message of %d octets (limit %d): backend read %d octets, terminal %q", x.Size, x.N, len(ev.Read), ev.Terminal), Witness: wit})
		}
	}
	return out
}

func classifyC06(sc *Scenario, h *History, st *Stats) string {
	x := sc.X.(*c06X)
	d := x.Size - x.N
	if d >= -2 && d <= 2 {
		st.Probes[fmt.Sprintf("size_N%+d", d)]++
	} else {
		st.Probes["size_far_above"]++
	}
	if x.SizeZeros {
		st.Probes["size_parameter_with_leading_zeros"]++
	}
	if x.ViaBdat {
		st.Probes["via_bdat"]++
	} else {
		st.Probes["via_data"]++
	}
	if x.SizeKind != 0 {
		st.Probes["size_parameter"]++
	}
	if dps := sc.BE.Conns[0].Data; dps[len(dps)-1].ReadMode == readCopy {
		st.Probes["backend_copies_with_io.Copy"]++
	}
	if x.ReadOn {
		for _, e := range dataEvents(h, 0) {
			if e.readOns > 0 {
				st.Faults["backend_reads_on_after_timeout_inside_message"]++
				break
			}
		}
	}
	if x.Huge != "" {
		st.Probes["chunk_size_beyond_63_bits_announced_first"]++
	}
	if x.Prelude > 0 {
		st.Probes["earlier_transaction_"+[]string{"", "BDAT_completed", "chunk_then_RSET", "BDAT_refused_for_size", "DATA_completed"}[x.Prelude]]++
	}
	return fmt.Sprintf("%d|%d|%v|%v|%d|%v|%v", x.N, x.Size, x.ViaBdat, x.Chunks, x.SizeKind, sc.Srv.LMTP, clipInts(sc.BE.Conns[0].Data[len(sc.BE.Conns[0].Data)-1].ReadSizes, 3)) + fmt.Sprint(x.Prelude)
}

func init() {
	register(&Property{
		ID: "C06", Level: "exploration",
		Rule:     "limits N in 8..24 (systematic) and {32,48,64,5000}; message sizes N-2..N+2 and about 10N (no leading dots, so wire and backend size agree); via DATA and via every BDAT chunk count 1..4 with drawn cut points (LAST sometimes on an empty chunk); MAIL with SIZE= N-1, N, N+1 (a third of them with leading zeros, up to the 20 digits RFC 1870 allows), 2^32-1, an 11-digit value and malformed values; in a sixth of the chunked cases a BDAT command with a size of 2^63 or more (no payload) comes first and only the bound is judged; backend read sizes, segmentation, SMTP/LMTP drawn. After the message: a DATA probe (must be refused: envelope gone), a MAIL marker, QUIT. Every case is non-trivial (it sits on or next to the boundary); distinct by (N, size, form, chunking, SIZE kind, mode, read sizes).",
		Gen:      genC06,
		Check:    checkC06,
		Classify: classifyC06,
		Sweep: func(tier string) []map[string]int {
			reps := 5
			if tier == "thorough" {
				reps = 60
			}
			var out []map[string]int
			for r := 0; r < reps; r++ {
				for n := 0; n <= 16; n++ {
					for s := 0; s < 6; s++ {
						for f := 0; f < 5; f++ {
							out = append(out, map[string]int{"c06n": n, "c06size": s, "c06form": f, "c06prelude": r % 5})
						}
					}
				}
			}
			return out
		},
		Real:        []string{"smtp.Server.Serve/handleConn", "smtp.Conn handleMail SIZE check, handleData, handleBdat", "dataReader budget", "io.Pipe", "net/textproto", "bufio"},
		Stub:        []string{"net.Listener (SimListener)", "net.Conn (SimConn)", "Backend/Session (SimBackend; returns the reader's error like io.ReadAll-based backends)", "clock (synctest)", "SMTP client (raw driver)"},
		Assumptions: []string{"message size is judged on messages without dot-stuffing, where wire size and backend size coincide", "the backend propagates a reader error as its verdict"},
		Required:    []string{"size_N+0", "size_N+1", "size_N-1", "size_far_above", "via_bdat", "via_data", "size_parameter", "earlier_transaction_BDAT_completed", "earlier_transaction_chunk_then_RSET", "earlier_transaction_BDAT_refused_for_size", "earlier_transaction_DATA_completed", "backend_reads_on_after_timeout_inside_message", "backend_copies_with_io.Copy", "size_parameter_with_leading_zeros", "chunk_size_beyond_63_bits_announced_first"},
		Instr:       true,
		QuickRuns:   200000, ThoroughRuns: 4000000,
	})
}
