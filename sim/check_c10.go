package sim

import (
	"bytes"
	"fmt"
	"strings"
	"time"
)

// C10 - STARTTLS discards all plaintext state and input, on server and client.

type c10X struct {
	Half       int // 0 server half, 1 client half
	TLSMode    int
	Pre        int // 0 greeted, 1 authenticated, 2 mid-transaction, 3 mid-BDAT
	Inject     int // 0 absent, 1 same segment as STARTTLS, 2 later segment before the ClientHello
	InjectForm int // what is injected: 0 two command lines, 1 an unterminated run just below the line limit, 2 a run longer than the limit
	AuthBE     bool
	TLSBdat    bool  // a chunked message is sent inside TLS under a size limit
	TLSData    bool  // a DATA message in plaintext before the upgrade and another inside TLS
	FailedHS   bool  // the handshake after the 220 fails (no ClientHello but a line of text): the connection goes on in plaintext
	FailIdx    []int // step indexes after the failed handshake: EHLO, QUIT
	StartIdx   int
	EhloPre    int
	Tail       []string // expectation per in-TLS step: "5", "250", "221", "!503", "ehlo"
	TailIdx    []int
	// client half
	Stub      int
	Via       int
	TLS8Bit   bool // the in-TLS capability list has 8BITMIME (the plaintext one then does not)
	TLSNoCaps bool // the in-TLS EHLO reply has no capability lines at all
	TLSNoEhlo bool // inside TLS the server refuses EHLO: the client falls back to HELO and knows no extension
}

var c10Pre = []string{"greeted", "authenticated", "mid-transaction", "mid-BDAT", "after-a-DATA-message"}

func genC10(t *Tape, tier string) *Scenario {
	sc := &Scenario{Prop: "C10"}
	sc.Srv = drawCfg(t, cfgOpts{noLMTP: true})
	sc.Srv.MaxRcpt, sc.Srv.MaxMsg, sc.Srv.MaxLine = 0, 0, 2000
	x := &c10X{}
	sc.X = x
	x.Half = t.Named("c10half", 2)
	if x.Half == 1 {
		return genC10Client(t, sc, x)
	}
	x.TLSMode = []int{tlsStart, tlsStart, tlsStart, tlsNone, tlsImplicit}[t.Named("c10tls", 5)]
	sc.Srv.TLS = x.TLSMode
	x.Pre = t.Named("c10pre", 5)
	x.Inject = t.Named("c10inject", 3)
	x.AuthBE = x.Pre == 1 || t.Bool()
	sc.Srv.InsecureAuth = true
	var cp ConnBackendPlan
	if x.AuthBE {
		sc.BE.Flavor = beAuth
		cp.Auth = &AuthPlan{Mechs: []string{"SIMPLE"}, Steps: []SaslStep{{Done: true}}}
	}
	steps := []Step{{Kind: kGreetWait, Wait: 1}}
	x.EhloPre = len(steps)
	steps = append(steps, Step{Kind: kHelo, Data: line("EHLO plain.example"), Wait: 1})
	if x.Pre == 1 {
		steps = append(steps, Step{Kind: kAuth, Data: line("AUTH SIMPLE %s", b64([]byte("user\x00pw"))), Wait: 1})
	}
	if x.Pre >= 2 {
		steps = append(steps, Step{Kind: kMail, Data: line("MAIL FROM:<ok-plain@a.example>"), Wait: 1},
			Step{Kind: kRcpt, Data: line("RCPT TO:<ok-plainrcpt@b.example>"), Wait: 1})
	}
	if x.Pre == 4 {
		// a whole message went through in plaintext: whatever the DATA path set up for it
		// (readers, buffers) belongs to the plaintext connection
		steps = append(steps, Step{Kind: kData, Data: []byte("DATA\r\n"), Wait: 1},
			Step{Kind: kBody, Data: []byte("sent in the clear\r\n.\r\n"), Need: 354, Wait: 1})
		cp.Data = append(cp.Data, DataPlan{}, DataPlan{})
		x.TLSData = true
	}
	if x.Pre == 3 {
		steps = append(steps, Step{Kind: kBdat, Data: line("BDAT 10")}, Step{Kind: kPayload, Data: []byte("0123456789"), Wait: 1})
		cp.Data = append(cp.Data, DataPlan{ParkAfter: Dur(t.Intn(5)) * time.Millisecond}, DataPlan{})
		if t.Bool() {
			// a size limit that the chunk sent in plaintext and the message sent inside
			// TLS each meet, but not their sum
			sc.Srv.MaxMsg = 30
			x.TLSBdat = true
		}
	}
	x.StartIdx = len(steps)
	if x.TLSMode == tlsStart && x.Inject == 0 && t.Chance(1, 6) {
		// STARTTLS is accepted but what follows is no handshake: the connection stays a
		// plaintext connection in every respect (no TLS state for the backend, STARTTLS
		// still on offer). The line is sent as a plain step so that the driver does not
		// start a handshake of its own.
		x.FailedHS = true
		steps = append(steps, Step{Kind: kGarbage, Data: []byte("STARTTLS\r\n"), Wait: 1},
			Step{Kind: kGarbage, Data: []byte("this is no TLS ClientHello at all\r\n"), Wait: 1})
		x.FailIdx = []int{len(steps), len(steps) + 1}
		steps = append(steps, Step{Kind: kHelo, Data: line("EHLO still-plain.example"), Wait: 1},
			Step{Kind: kQuit, Data: []byte("QUIT\r\n"), Wait: 1})
		sc.BE.Conns = []ConnBackendPlan{cp}
		cs := ConnScript{Lat: drawLat(t), LatBack: drawLat(t), Steps: steps}
		cs.defaults()
		sc.Conns = []ConnScript{cs}
		sc.Strata = []string{fmt.Sprintf("server/failed-handshake/%s", c10Pre[x.Pre])}
		return sc
	}
	st := Step{Kind: kStartTLS, Data: []byte("STARTTLS\r\n"), Wait: 1}
	if x.TLSMode == tlsStart && x.Inject != 0 {
		st.Wait = 0
		st.Glue = x.Inject == 1
		steps = append(steps, st)
		inj := Step{Kind: kInject, Data: []byte("MAIL FROM:<ok-bait-inj@evil.example>\r\nRCPT TO:<ok-bait-rcpt@evil.example>\r\n"), Wait: 1}
		if x.Inject == 1 {
			// (in the STARTTLS segment the injected octets may also be a long run without a
			// line end: nothing of it - not even its length - may count inside TLS)
			x.InjectForm = t.Named("c10injform", 3)
			switch x.InjectForm {
			case 1:
				inj.Data = []byte("NOOP " + strings.Repeat("x", sc.Srv.MaxLine-15))
			case 2:
				inj.Data = []byte("NOOP " + strings.Repeat("x", sc.Srv.MaxLine+1000))
			}
		}
		if x.Inject == 2 {
			inj.Pre = Dur(1+t.Intn(20)) * 100 * time.Microsecond
		}
		steps = append(steps, inj)
	} else {
		steps = append(steps, st)
	}
	add := func(l, expect string) {
		x.TailIdx = append(x.TailIdx, len(steps))
		x.Tail = append(x.Tail, expect)
		steps = append(steps, Step{Kind: kMarker, Data: []byte(l + "\r\n"), Wait: 1})
	}
	if x.TLSMode == tlsStart {
		if t.Bool() {
			add("MAIL FROM:<ok-early@tls.example>", "5")
		}
		if x.Pre >= 2 && t.Bool() {
			add("RCPT TO:<ok-early-rcpt@tls.example>", "5")
		}
		add("EHLO tls.example", "ehlo")
		if t.Bool() {
			add("RCPT TO:<ok-late-rcpt@tls.example>", "5")
		}
		if x.AuthBE && t.Bool() {
			add(fmt.Sprintf("AUTH SIMPLE %s", b64([]byte("user\x00pw"))), "!503")
		}
		add("MAIL FROM:<ok-in-tls@tls.example>", "250")
		if x.TLSData {
			add("RCPT TO:<ok-in-tls-rcpt@tls.example>", "250")
			add("DATA", "354")
			x.TailIdx = append(x.TailIdx, len(steps))
			x.Tail = append(x.Tail, "250")
			steps = append(steps, Step{Kind: kBody, Data: []byte("sent inside TLS\r\n.dot line\r\n.\r\n"), Need: 354, Wait: 1})
		}
		if x.TLSBdat {
			add("RCPT TO:<ok-in-tls-rcpt@tls.example>", "250")
			x.TailIdx = append(x.TailIdx, len(steps))
			x.Tail = append(x.Tail, "250")
			steps = append(steps, Step{Kind: kBdat, Data: line("BDAT 25 LAST")}, Step{Kind: kPayload, Data: []byte("twenty-five octets long\r\n"), Wait: 1})
		}
	}
	add("NOOP", "250")
	add("QUIT", "221")
	// a backend whose Logout fails: the plaintext session is given up all the same
	cp.LogoutErr = t.Chance(1, 4)
	sc.BE.Conns = []ConnBackendPlan{cp}
	cs := ConnScript{Lat: drawLat(t), LatBack: drawLat(t), Steps: steps}
	cs.defaults()
	sc.Conns = []ConnScript{cs}
	sc.Strata = []string{fmt.Sprintf("server/tls%d/%s/inject%d.%d", x.TLSMode, c10Pre[x.Pre], x.Inject, x.InjectForm)}
	return sc
}

func genC10Client(t *Tape, sc *Scenario, x *c10X) *Scenario {
	x.Stub = t.Named("c10stub", 7)
	x.Via = t.Named("c10via", 3)
	x.TLS8Bit = t.Bool()
	x.TLSNoCaps = t.Chance(1, 4)
	stub := &StubScript{Behaviour: x.Stub, Gap: Dur(t.Intn(10)) * 100 * time.Microsecond}
	if !x.TLSNoCaps && t.Chance(1, 5) {
		// inside TLS the server refuses EHLO and takes HELO: nothing was negotiated there
		x.TLSNoEhlo = true
		x.TLS8Bit = false
		stub.TLSNoEhlo = true
		stub.PlainCaps = []string{"8BITMIME", "SIZE 100", "AUTH PLAIN"}
		stub.TLSCaps = nil
	} else if x.TLSNoCaps {
		// inside TLS the server answers EHLO with the greeting line only
		x.TLS8Bit = false
		stub.PlainCaps = []string{"8BITMIME", "SIZE 100", "AUTH PLAIN"}
		stub.TLSCaps = nil
	} else if x.TLS8Bit {
		stub.PlainCaps = []string{"SIZE 100", "DSN"}
		stub.TLSCaps = []string{"8BITMIME", "PIPELINING"}
	} else {
		stub.PlainCaps = []string{"8BITMIME", "AUTH PLAIN"}
		stub.TLSCaps = []string{"SIZE 5000"}
	}
	cl := &ClientScript{StartTLS: true, Via: x.Via}
	body := []byte("Subject: secret\r\n\r\nthe secret content\r\n")
	if x.Via == 2 {
		cl.Ops = []ClientOp{{Kind: opSendMail, Arg: "ok-sender@a.example", To: []string{"ok-rcpt@b.example"}, Body: body}}
	} else {
		cl.Ops = []ClientOp{{Kind: opMail, Arg: "ok-sender@a.example", Size: 50}, {Kind: opRcpt, Arg: "ok-rcpt@b.example"}, {Kind: opData, Body: body}, {Kind: opQuit}}
	}
	if t.Bool() {
		cl.Split = []int{1 + t.Intn(40)}
	}
	cs := ConnScript{Lat: drawLat(t), LatBack: drawLat(t), Client: cl, Stub: stub}
	cs.defaults()
	sc.Conns = []ConnScript{cs}
	sc.Strata = []string{fmt.Sprintf("client/%s/via%d", stubNames[x.Stub], x.Via)}
	return sc
}

func checkC10(sc *Scenario, h *History) []Violation {
	x := sc.X.(*c10X)
	if x.Half == 1 {
		return checkC10Client(sc, h, x)
	}
	var out []Violation
	ch := h.Conns[0]
	wit := fmt.Sprintf("server tls=%d pre=%s inject=%d authbe=%v tail=%v", x.TLSMode, c10Pre[x.Pre], x.Inject, x.AuthBE, x.Tail)
	v := func(rule, format string, a ...interface{}) {
		if len(out) < 4 {
			out = append(out, Violation{Rule: rule, Detail: fmt.Sprintf(format, a...), Witness: wit})
		}
	}
	steps := sc.Conns[0].Steps
	plain, tl := epochReplies(ch)
	if x.TLSMode == tlsImplicit {
		if ch.HandshakeErr != "" {
			return out
		}
		plain, _ = parseReplies(ch.Recv)
	}
	// replies per waiting step, in order
	all := append(append([]Reply{}, plain...), tl...)
	replyOf := map[int]*Reply{}
	ri := 0
	for i, s := range steps {
		if ch.StepSkipped[i] || (s.Kind != kGreetWait && ch.StepOff[i] < 0) || s.Wait == 0 {
			continue
		}
		if ri < len(all) {
			replyOf[i] = &all[ri]
			ri++
		}
	}
	// advertisement and acceptance: only when TLS is configured and not yet active
	hasCap := func(r *Reply, name string) bool {
		if r == nil {
			return false
		}
		for _, l := range r.Lines {
			if strings.EqualFold(strings.TrimSpace(l), name) {
				return true
			}
		}
		return false
	}
	if r := replyOf[x.EhloPre]; r != nil {
		if adv := hasCap(r, "STARTTLS"); adv != (x.TLSMode == tlsStart) {
			v("C10.advertised", "EHLO before TLS (TLS mode %d) advertised STARTTLS=%v", x.TLSMode, adv)
		}
	}
	if x.FailedHS {
		if sr := replyOf[x.StartIdx]; sr == nil || sr.Code != 220 {
			v("C10.accepted", "STARTTLS on a TLS-capable plaintext connection was answered %v", sr)
			return out
		}
		if r := replyOf[x.FailIdx[0]]; r != nil && r.Code == 250 && !hasCap(r, "STARTTLS") {
			v("C10.failed-handshake", "after a failed handshake the connection is still plaintext, but EHLO no longer offers STARTTLS")
		}
		for _, e := range h.Events {
			if e.Kind == "NewSession" && e.TLS {
				v("C10.failed-handshake", "after a failed handshake a session was created that sees a TLS state on a plaintext connection")
			}
		}
		return out
	}
	startIdx := x.StartIdx
	if x.TLSMode == tlsStart && x.Inject != 0 {
		startIdx = x.StartIdx + 1 // the 220 is awaited after the injected octets were written
	}
	sr := replyOf[startIdx]
	if x.TLSMode != tlsStart {
		if sr != nil && sr.Code/100 != 5 {
			v("C10.accepted", "STARTTLS with TLS mode %d (not configured / already active) was answered %s", x.TLSMode, sr)
		}
		for k, idx := range x.TailIdx {
			if r := replyOf[idx]; r != nil && fmt.Sprint(r.Code) != x.Tail[k] {
				v("C10.after-refusal", "after the refused STARTTLS step %d was answered %s", k, r)
			}
		}
		return out
	}
	if sr == nil || sr.Code != 220 {
		if x.Inject != 2 {
			v("C10.accepted", "STARTTLS on a TLS-capable plaintext connection was answered %v", sr)
		}
		return out
	}
	if !ch.HandshakeDone {
		if x.Inject == 0 {
			v("C10.handshake", "the handshake after 220 failed without any injected input: %s", ch.HandshakeErr)
		}
		return out // failed handshake: only C08's rules are judged
	}
	// inside TLS
	for _, e := range h.Events {
		if strings.Contains(e.Arg, "bait") {
			v("C10.injected-executed", "plaintext pipelined behind STARTTLS was interpreted inside the TLS session: %s(%s)", e.Kind, e.Arg)
		}
	}
	if len(tl) != len(x.Tail) {
		var codes []string
		for _, r := range tl {
			codes = append(codes, fmt.Sprint(r.Code))
		}
		v("C10.tls-reply-count", "%d commands were sent inside TLS but %d replies came back: %s", len(x.Tail), len(tl), strings.Join(codes, " "))
		return out
	}
	for k, e := range x.Tail {
		r := tl[k]
		cmd := strings.TrimRight(string(steps[x.TailIdx[k]].Data), "\r\n")
		switch e {
		case "5":
			if r.Code/100 != 5 {
				v("C10.state-carried-over", "%q inside TLS was answered %s: plaintext state (greeting or envelope) survived STARTTLS", cmd, r)
			}
		case "!503":
			if r.Code == 503 {
				v("C10.state-carried-over", "AUTH inside TLS was answered 503: the plaintext authentication survived STARTTLS")
			}
		case "ehlo":
			if r.Code != 250 {
				v("C10.tls-ehlo", "EHLO inside TLS was answered %s", r)
			}
			if hasCap(&r, "STARTTLS") {
				v("C10.advertised", "EHLO inside TLS still advertises STARTTLS")
			}
		default:
			if fmt.Sprint(r.Code) != e {
				v("C10.tls-reply", "%q inside TLS: expected %s, got %s", cmd, e, r)
			}
		}
	}
	if x.TLSData {
		evs := dataEvents(h, 0)
		if len(evs) != 2 || string(evs[1].Read) != "sent inside TLS\r\ndot line\r\n" || !evs[1].SawEOF {
			got := "no second Data call"
			if len(evs) == 2 {
				got = fmt.Sprintf("%q (terminal %q)", clip(string(evs[1].Read), 80), evs[1].Terminal)
			}
			v("C10.tls-message", "the message sent inside TLS after a plaintext message did not reach the backend as sent: %s", got)
		}
	}
	// the plaintext session was logged out and replaced by one that sees TLS
	firstTLS := -1
	for _, e := range h.Events {
		if e.Kind == "NewSession" && e.TLS {
			firstTLS = e.Seq
			break
		}
	}
	for _, e := range h.Events {
		if e.Kind == "NewSession" && !e.TLS {
			lo := false
			for _, l := range h.Events {
				if l.Kind == "Logout" && l.Sess == e.Sess && (firstTLS < 0 || l.Seq < firstTLS) {
					lo = true
				}
			}
			if !lo {
				v("C10.no-logout", "the plaintext session %d was not logged out before the TLS session started", e.Sess)
			}
		}
		if e.Kind == "NewSession" && firstTLS >= 0 && e.Seq >= firstTLS && !e.TLS {
			v("C10.tls-state", "a session created after the upgrade does not see the TLS state")
		}
	}
	if firstTLS < 0 {
		v("C10.tls-state", "no session that sees TLS was created by the EHLO inside TLS")
	}
	for _, e := range h.Events {
		if firstTLS >= 0 && e.Seq > firstTLS && e.Kind != "NewSession" && e.Kind != "Logout" {
			for _, n := range h.Events {
				if n.Kind == "NewSession" && !n.TLS && n.Sess == e.Sess && e.Kind != "Data" {
					v("C10.old-session-used", "%s(%s) was called on the plaintext session after the upgrade", e.Kind, e.Arg)
				}
			}
		}
	}
	return out
}

func checkC10Client(sc *Scenario, h *History, x *c10X) []Violation {
	var out []Violation
	ch := h.Conns[0]
	st := ch.Stub
	wit := fmt.Sprintf("client stub=%s via=%d tls8bit=%v", stubNames[x.Stub], x.Via, x.TLS8Bit)
	v := func(rule, format string, a ...interface{}) {
		if len(out) < 4 {
			out = append(out, Violation{Rule: rule, Detail: fmt.Sprintf(format, a...), Witness: wit})
		}
	}
	if ch.Client == nil || st == nil {
		v("C10.harness", "client or stub did not run")
		return out
	}
	// (1) what the client put on the raw socket before any TLS record
	raw := ch.C2S.Buf
	pos := 0
	for pos < len(raw) {
		if raw[pos] == 0x16 && pos+2 < len(raw) && raw[pos+1] == 0x03 {
			break // a TLS handshake record
		}
		j := bytes.IndexByte(raw[pos:], '\n')
		if j < 0 {
			j = len(raw) - pos - 1
		}
		l := strings.ToUpper(strings.TrimRight(string(raw[pos:pos+j+1]), "\r\n"))
		pos += j + 1
		ok := strings.HasPrefix(l, "EHLO") || strings.HasPrefix(l, "HELO") || l == "STARTTLS" || l == "QUIT" || l == ""
		if !ok {
			v("C10.plaintext-leak", "the client wrote %q on the raw socket before a completed TLS handshake", clip(l, 60))
		}
	}
	for _, l := range st.PlainLines {
		u := strings.ToUpper(l)
		if strings.HasPrefix(u, "MAIL") || strings.HasPrefix(u, "RCPT") || strings.HasPrefix(u, "DATA") || strings.HasPrefix(u, "AUTH") {
			v("C10.plaintext-leak", "the server received %q in plaintext", clip(l, 60))
		}
	}
	if st.PlainData > 0 {
		v("C10.plaintext-leak", "the server received %d octets of message content in plaintext", st.PlainData)
	}
	// (2) outcome per behaviour
	apiErr := ch.Client.NewErr != "" && ch.Client.NewErr != "<nil>"
	for _, r := range ch.Client.Results {
		if r.Err != "" {
			apiErr = true
		}
	}
	success := x.Stub == stubHonest || x.Stub == stubInjectSame
	switch {
	case !success:
		if !apiErr {
			v("C10.no-error", "the server misbehaved (%s) but every client call succeeded", stubNames[x.Stub])
		}
	case x.Via == 2:
		// SendMail uses a nil TLS config: the stub's self-signed certificate is refused, which is a failure mode too
		if !apiErr {
			v("C10.no-error", "SendMail with default TLS verification succeeded against a self-signed certificate")
		}
	default:
		if apiErr {
			first := ch.Client.NewErr
			for _, r := range ch.Client.Results {
				if first == "" && r.Err != "" {
					first = opNames[r.Kind] + ": " + r.Err
				}
			}
			v("C10.honest-failed", "an honest upgrade (%s) ended in an error: %s", stubNames[x.Stub], first)
			return out
		}
		if !st.HandshakeDone || len(st.TLSLines) == 0 {
			v("C10.honest-failed", "no TLS session was established")
			return out
		}
		if !strings.HasPrefix(strings.ToUpper(st.TLSLines[0]), "EHLO") {
			v("C10.no-renegotiation", "the first command inside TLS was %q, not EHLO", st.TLSLines[0])
		}
		for _, l := range st.TLSLines {
			if strings.HasPrefix(strings.ToUpper(l), "MAIL") {
				has8 := strings.Contains(strings.ToUpper(l), "BODY=8BITMIME")
				if has8 != x.TLS8Bit {
					v("C10.plaintext-capabilities", "MAIL inside TLS was %q but the in-TLS capability list has 8BITMIME=%v: parameters were taken from the plaintext EHLO or from an injected reply", l, x.TLS8Bit)
				}
				hasSize := strings.Contains(strings.ToUpper(l), "SIZE=")
				if hasSize != (!x.TLS8Bit && !x.TLSNoCaps && !x.TLSNoEhlo) {
					v("C10.plaintext-capabilities", "MAIL inside TLS was %q but the in-TLS capability list has SIZE=%v", l, !x.TLS8Bit)
				}
			}
		}
	}
	return out
}

func classifyC10(sc *Scenario, h *History, st *Stats) string {
	x := sc.X.(*c10X)
	ch := h.Conns[0]
	if x.Half == 1 {
		st.Faults["stub_"+stubNames[x.Stub]]++
		if ch.Stub != nil && ch.Stub.HandshakeDone {
			st.Probes["client_tls_session_established"]++
			if x.TLSNoCaps {
				st.Probes["in_tls_ehlo_reply_without_capabilities"]++
			}
			if x.TLSNoEhlo {
				st.Probes["in_tls_ehlo_refused_client_falls_back_to_helo"]++
			}
		}
		if ch.Stub != nil && ch.Stub.HandshakeErr != "" {
			st.Faults["tls_handshake_failed"]++
		}
		return fmt.Sprintf("client|%d|%d|%v|%v|%v", x.Stub, x.Via, x.TLS8Bit, x.TLSNoCaps, x.TLSNoEhlo)
	}
	if ch.HandshakeDone {
		st.Probes["server_tls_session_established"]++
		if len(sc.BE.Conns) > 0 && sc.BE.Conns[0].LogoutErr {
			for _, e := range h.Events {
				if e.Kind == "Logout" && e.Res != "" {
					st.Faults["logout_of_the_plaintext_session_returns_an_error"]++
					break
				}
			}
		}
		if x.Inject == 1 {
			st.Probes["injected_plaintext_same_segment_then_tls_ok"]++
			if x.InjectForm > 0 {
				st.Probes["injected_long_run_without_line_end_then_tls_ok"]++
			}
		}
	}
	if ch.HandshakeErr != "" && x.Inject == 2 {
		st.Probes["injected_plaintext_later_segment_breaks_handshake"]++
	}
	if x.FailedHS {
		st.Faults["handshake_fails_connection_goes_on_in_plaintext"]++
		return fmt.Sprintf("server|failed-handshake|%d|%v", x.Pre, x.AuthBE)
	}
	return fmt.Sprintf("server|%d|%d|%d.%d|%v|%v", x.TLSMode, x.Pre, x.Inject, x.InjectForm, x.AuthBE, x.Tail)
}

func init() {
	register(&Property{
		ID: "C10", Level: "exploration",
		Rule:     "server half: raw driver + crypto/tls client against the real server: pre-histories {greeted, authenticated, mid-transaction, mid-BDAT with a parked delivery} x injected plaintext {absent, in the STARTTLS segment, in a later segment before the ClientHello} x TLS {available, not configured, already active}, then a drawn tail of in-TLS commands (MAIL before EHLO, RCPT, EHLO, AUTH, MAIL, NOOP, QUIT); a stratum in which the handshake after the 220 fails and the connection goes on in plaintext (no TLS state for the backend, STARTTLS still offered); client half: real client created by NewClientStartTLS, DialStartTLS (dial hook) or the package-level SendMail (dial hook) against a stub server with behaviours {honest, STARTTLS not advertised, 454, 220 then garbage, 220 then cut, 220 with an injected reply in the same segment, ... in a later segment} and different capability lists before and after TLS. All products are swept systematically; distinct by the stratum tuple.",
		Gen:      genC10,
		Check:    checkC10,
		Classify: classifyC10,
		Sweep: func(tier string) []map[string]int {
			reps := 12
			if tier == "thorough" {
				reps = 1500
			}
			var out []map[string]int
			for r := 0; r < reps; r++ {
				for tl := 0; tl < 5; tl++ {
					for pre := 0; pre < 5; pre++ {
						for inj := 0; inj < 3; inj++ {
							out = append(out, map[string]int{"c10half": 0, "c10tls": tl, "c10pre": pre, "c10inject": inj, "c10injform": r % 3})
						}
					}
				}
				for s := 0; s < 7; s++ {
					for via := 0; via < 3; via++ {
						out = append(out, map[string]int{"c10half": 1, "c10stub": s, "c10via": via})
					}
				}
			}
			return out
		},
		Real:        []string{"smtp.Server.Serve/handleConn, handleStartTLS, handleGreet", "smtp.Client: NewClientStartTLS, DialStartTLS, SendMail, startTLS/setConn, hello, Mail", "crypto/tls client and server", "net/textproto"},
		Stub:        []string{"net.Listener (SimListener)", "net.Conn (SimConn, with a raw tap below TLS)", "Backend/AuthSession (SimBackend)", "hostile SMTP server (stub) for the client half", "dialing (VerifDial hook, build tag verif)", "clock (synctest)"},
		Assumptions: []string{"after a failed handshake nothing is judged except C08's rules", "package-level SendMail verifies certificates with the default configuration, so against the simulated self-signed peer only its failure modes are reachable"},
		Required:    []string{"logout_of_the_plaintext_session_returns_an_error", "client_tls_session_established", "in_tls_ehlo_reply_without_capabilities", "injected_plaintext_later_segment_breaks_handshake", "injected_plaintext_same_segment_then_tls_ok", "server_tls_session_established", "stub_honest", "stub_454", "stub_starttls-not-advertised", "stub_220-then-garbage", "stub_220-then-cut", "stub_220+injected-reply-same-segment", "stub_220+injected-reply-later-segment", "handshake_fails_connection_goes_on_in_plaintext", "in_tls_ehlo_refused_client_falls_back_to_helo", "injected_long_run_without_line_end_then_tls_ok"},
		Instr:       true,
		QuickRuns:   12000, ThoroughRuns: 600000,
	})
}
