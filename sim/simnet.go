package sim

import (
	"errors"
	smtp "github.com/emersion/go-smtp"
	"io"
	"net"
	"os"
	"sync"
	"syscall"
	"time"
)

type Dur = time.Duration

// classMod is the granularity of actor residue classes: every instant at which
// a harness-controlled goroutine wakes is congruent to its actor's class modulo
// classMod nanoseconds, so two actors never wake at the same fake instant.
// All timers the library arms are multiples of 1us, which preserves the class
// of the goroutine that armed them.
const classMod = 1000

func alignClass(target int64, class int) int64 {
	base := target - target%classMod + int64(class%classMod)
	if base < target {
		base += classMod
	}
	return base
}

// sleepClass parks the calling goroutine for at least d of fake time, waking at
// an instant of the given residue class. It is the only way harness code parks
// (time.Sleep carries no race-detector annotation).
func sleepClass(class int, d Dur) {
	now := time.Now().UnixNano()
	at := alignClass(now+int64(d), class)
	if at <= now {
		at += classMod
	}
	time.Sleep(Dur(at - now))
}

type simAddr string

func (a simAddr) Network() string { return "sim" }
func (a simAddr) String() string  { return string(a) }

type segment struct {
	data []byte
	at   int64
}

// WRec describes one segment put on the wire, RRec one Read that returned data.
type WRec struct {
	Off, N     int
	At, Arrive int64
}
type RRec struct {
	Off, N int
	At     int64
}

// pipeHalf is one direction of a simulated connection.
type pipeHalf struct {
	mu   sync.Mutex
	cond *sync.Cond

	q       []segment
	lastAt  int64
	wclosed bool // writer closed: reader sees EOF after the queue drains
	reset   bool // writer reset: reader sees ECONNRESET
	rclosed bool // reader closed locally: reads fail, writes are dropped

	deadline int64
	wakerAt  int64

	rclass      int   // residue class of the reading actor
	lat         []Dur // per-segment latency, cycled
	latIdx      int
	caps        []int // short-read caps for the reader, cycled; 0 = whole segment
	capIdx      int
	eofWithData bool // Read returns the last octets together with io.EOF when the FIN is already there
	rendezvous  bool // the writer waits for the reader: tell it when octets are taken

	// recording
	buf      []byte
	wlog     []WRec
	rlog     []RRec
	consumed int
	closedAt int64 // instant the writer closed (FIN/RST), 0 if never
	dropped  int   // octets written after the reader had closed
}

func newHalf(rclass int) *pipeHalf {
	h := &pipeHalf{rclass: rclass}
	h.cond = sync.NewCond(&h.mu)
	return h
}

// ConnFaults are transport-level faults applied at one endpoint.
type ConnFaults struct {
	FailWriteAt int   // 1-based index of the first Write that fails (0 = never)
	WriteSplit  []int // sizes into which this endpoint's writes are re-cut, cycled (nil = one segment per Write)
	// The peer stops reading: the BlockWriteAt-th Write (1-based) finds the send window
	// full and blocks until BlockFor has passed (0: for ever), the write deadline
	// expires or this endpoint is closed by another goroutine.
	BlockWriteAt int
	BlockFor     Dur
	// Rendezvous: no buffering on this endpoint's outgoing half - a Write returns when the
	// peer has read every octet of it (as on net.Pipe, or with send and receive windows full)
	Rendezvous bool
}

// SimConn is one endpoint of a simulated full-duplex connection.
type SimConn struct {
	ID     int
	Side   string // "srv" or "cli"
	rd, wr *pipeHalf
	faults ConnFaults

	wmu                sync.Mutex
	nwrites            int
	splitIx            int
	lateWrites         int // Write calls after this endpoint was closed
	blocked            int // Writes that found the send window full
	blockedTimeouts    int // ... and ended by the write deadline
	blockedUnderLock   int // a write that would block for ever was issued under Conn.locker
	unboundedUnderLock int // writes without a deadline issued while the Conn\'s mutex was held
	wdeadline          int64
	closeHook          func() // called once, on the first Close of this endpoint
	closeOnce          sync.Once

	wclass        int        // residue class of the instants at which this endpoint writes
	owner         *smtp.Conn // server endpoint: the Conn that serves it (announced through smtp.VerifNewConn)
	local, remote simAddr
}

// NewConnPair creates the two endpoints of connection id. Residue classes:
// the server endpoint reads in class base, the client endpoint in base+1.
func NewConnPair(id int) (srv, cli *SimConn) {
	base := 10 + 4*id
	c2s := newHalf(base)
	s2c := newHalf(base + 1)
	srv = &SimConn{ID: id, Side: "srv", rd: c2s, wr: s2c, wclass: base + 3, local: "server:25", remote: simAddr("client" + itoa(id) + ":1000")}
	cli = &SimConn{ID: id, Side: "cli", rd: s2c, wr: c2s, wclass: base + 2, local: simAddr("client" + itoa(id) + ":1000"), remote: "server:25"}
	return
}

func itoa(i int) string {
	if i == 0 {
		return "0"
	}
	neg := i < 0
	if neg {
		i = -i
	}
	var b [20]byte
	p := len(b)
	for i > 0 {
		p--
		b[p] = byte('0' + i%10)
		i /= 10
	}
	if neg {
		p--
		b[p] = '-'
	}
	return string(b[p:])
}

var errTimeout = &net.OpError{Op: "read", Net: "sim", Err: os.ErrDeadlineExceeded}
var errReset = &net.OpError{Op: "read", Net: "sim", Err: syscall.ECONNRESET}
var errPipe = &net.OpError{Op: "write", Net: "sim", Err: syscall.EPIPE}

func closedErr(op string) error { return &net.OpError{Op: op, Net: "sim", Err: net.ErrClosed} }

// ownInstant moves the caller to an instant of this endpoint's class unless it
// is at one already. A goroutine of the library can be woken by the library's
// own synchronisation (a pipe closed by Server.Close, a result channel) at
// another actor's instant, while that actor is still running; what it then does
// to the connection must not depend on how the two were scheduled. At its own
// instant the other actor has run to its next blocking point, because the fake
// clock only moves when every goroutine is blocked.
func (c *SimConn) ownInstant(class int) {
	if int(time.Now().UnixNano()%classMod) != class%classMod && !connLocked(c) {
		sleepClass(class, 0)
	}
}

func (c *SimConn) Read(b []byte) (int, error) {
	c.ownInstant(c.rd.rclass)
	h := c.rd
	h.mu.Lock()
	defer h.mu.Unlock()
	if len(b) == 0 {
		return 0, nil
	}
	for {
		if h.rclosed {
			return 0, closedErr("read")
		}
		now := time.Now().UnixNano()
		if h.deadline != 0 && h.deadline <= now {
			// as the runtime's poller does: a deadline that has passed fails the call
			// even if octets are waiting
			return 0, errTimeout
		}
		if len(h.q) > 0 {
			s := &h.q[0]
			if s.at <= now {
				max := len(b)
				if len(h.caps) > 0 {
					if cp := h.caps[h.capIdx%len(h.caps)]; cp > 0 && cp < max {
						max = cp
					}
					h.capIdx++
				}
				n := copy(b[:max], s.data)
				if n == len(s.data) {
					h.q[0].data = nil
					h.q = h.q[1:]
				} else {
					s.data = s.data[n:]
				}
				h.rlog = append(h.rlog, RRec{Off: h.consumed, N: n, At: now})
				h.consumed += n
				if h.rendezvous {
					h.cond.Broadcast()
				}
				if h.eofWithData && len(h.q) == 0 && h.wclosed && !h.reset {
					// the last octets and the end of the stream in one call, as io.Reader
					// allows and crypto/tls does when the close_notify is already there
					return n, io.EOF
				}
				return n, nil
			}
			wake := s.at
			if h.deadline != 0 && h.deadline < wake {
				if h.deadline <= now {
					return 0, errTimeout
				}
				wake = h.deadline
			}
			h.mu.Unlock()
			time.Sleep(Dur(wake - now))
			h.mu.Lock()
			continue
		}
		if h.reset {
			return 0, errReset
		}
		if h.wclosed {
			return 0, io.EOF
		}
		if h.deadline != 0 {
			if h.deadline <= now {
				return 0, errTimeout
			}
			h.ensureWaker(now, h.deadline)
		}
		h.cond.Wait()
		// Whoever woke us is still acting at this very instant. Look at the
		// state only at an instant of our own class, when the waker has run
		// to its next blocking point: what we then see does not depend on
		// how two goroutines runnable at one instant were scheduled.
		h.mu.Unlock()
		sleepClass(h.rclass, 0)
		h.mu.Lock()
	}
}

// Ready reports whether a Read would return data right now.
func (c *SimConn) Ready() bool {
	h := c.rd
	h.mu.Lock()
	defer h.mu.Unlock()
	return len(h.q) > 0 && h.q[0].at <= time.Now().UnixNano()
}

// ensureWaker makes sure a goroutine will broadcast at or before target.
// Called with h.mu held, by the reader.
func (h *pipeHalf) ensureWaker(now, target int64) {
	if h.wakerAt != 0 && h.wakerAt > now && h.wakerAt <= target {
		return
	}
	h.wakerAt = target
	d := Dur(target - now)
	go func() {
		time.Sleep(d)
		h.mu.Lock()
		if h.wakerAt == target {
			h.wakerAt = 0
		}
		h.cond.Broadcast()
		h.mu.Unlock()
	}()
}

func (c *SimConn) Write(b []byte) (int, error) {
	// (writes have a class of their own: two goroutines of the library may use one
	// connection at a time, one reading - an LMTP delivery - and one writing)
	c.ownInstant(c.wclass)
	c.wmu.Lock()
	nodeadline := c.wdeadline == 0
	c.wmu.Unlock()
	hazard := false
	if c.owner != nil && !raceTier && nodeadline && len(b) > 0 && heldByCaller(c.owner) {
		// A write with no deadline, issued while the Conn's mutex is held: if the peer stops
		// reading it never returns, and Server.Close, which needs the mutex to end the
		// connection, never returns either. (Probed with no harness lock held.)
		hazard = true
	}
	c.wmu.Lock()
	if c.wdeadline != 0 && time.Now().UnixNano() >= c.wdeadline {
		c.wmu.Unlock()
		return 0, &net.OpError{Op: "write", Net: "sim", Err: os.ErrDeadlineExceeded}
	}
	c.nwrites++
	nw := c.nwrites
	if hazard {
		c.unboundedUnderLock++
	}
	var cuts []int
	if len(c.faults.WriteSplit) > 0 {
		rest := len(b)
		for rest > 0 {
			sz := c.faults.WriteSplit[c.splitIx%len(c.faults.WriteSplit)]
			c.splitIx++
			if sz <= 0 || sz > rest {
				sz = rest
			}
			cuts = append(cuts, sz)
			rest -= sz
		}
	} else {
		cuts = []int{len(b)}
	}
	c.wmu.Unlock()

	blockHere := c.faults.BlockWriteAt > 0 && nw == c.faults.BlockWriteAt && len(b) > 0
	lockedHere := blockHere && connLocked(c) // (probed with no harness lock held)
	rendezvous := c.faults.Rendezvous && len(b) > 0 && !connLocked(c)

	h := c.wr
	h.mu.Lock()
	defer h.mu.Unlock()
	if h.wclosed || h.reset {
		c.wmu.Lock()
		c.lateWrites++
		c.wmu.Unlock()
		return 0, closedErr("write")
	}
	if c.faults.FailWriteAt > 0 && nw >= c.faults.FailWriteAt {
		return 0, errPipe
	}
	if blockHere {
		if !lockedHere {
			if err := c.blockedWrite(h); err != nil {
				return 0, err
			}
		} else if c.faults.BlockFor == 0 {
			// The simulation cannot park a goroutine that holds Conn.locker (whoever waits for
			// the mutex is not durably blocked and the fake clock would freeze), so the hazard
			// is recorded instead: with no write deadline this write never returns, the lock is
			// never released, and Server.Close - which needs it to end the connection - hangs.
			c.wmu.Lock()
			if c.wdeadline == 0 {
				c.blockedUnderLock++
			}
			c.wmu.Unlock()
		}
	}
	if len(b) == 0 {
		return 0, nil
	}
	if h.rclosed {
		// The peer is gone: like a kernel that still accepts the octets.
		h.dropped += len(b)
		return len(b), nil
	}
	now := time.Now().UnixNano()
	off := 0
	for _, sz := range cuts {
		var lat Dur
		if len(h.lat) > 0 {
			lat = h.lat[h.latIdx%len(h.lat)]
			h.latIdx++
		}
		at := alignClass(now+int64(lat)+1, h.rclass)
		if at < h.lastAt {
			at = h.lastAt
		}
		h.lastAt = at
		data := make([]byte, sz)
		copy(data, b[off:off+sz])
		h.q = append(h.q, segment{data: data, at: at})
		h.wlog = append(h.wlog, WRec{Off: len(h.buf), N: sz, At: now, Arrive: at})
		h.buf = append(h.buf, data...)
		off += sz
	}
	h.cond.Broadcast()
	if rendezvous {
		// wait until the peer has taken everything (never under Conn.locker)
		h.rendezvous = true
		want := len(h.buf)
		for h.consumed < want && !h.rclosed && !h.wclosed && !h.reset {
			c.wmu.Lock()
			wd := c.wdeadline
			c.wmu.Unlock()
			now := time.Now().UnixNano()
			if wd != 0 {
				if now >= wd {
					return len(b) - (want - h.consumed), &net.OpError{Op: "write", Net: "sim", Err: os.ErrDeadlineExceeded}
				}
				d := Dur(wd - now)
				go func() {
					time.Sleep(d)
					h.mu.Lock()
					h.cond.Broadcast()
					h.mu.Unlock()
				}()
			}
			h.cond.Wait()
			h.mu.Unlock()
			sleepClass(c.wclass, 0)
			h.mu.Lock()
		}
	}
	return len(b), nil
}

// blockedWrite parks the writer as a full send window does. Called with h.mu
// held (h is the outgoing half), never under Conn.locker.
func (c *SimConn) blockedWrite(h *pipeHalf) error {
	c.wmu.Lock()
	c.blocked++
	c.wmu.Unlock()
	var until int64
	if c.faults.BlockFor > 0 {
		until = time.Now().UnixNano() + int64(c.faults.BlockFor)
	}
	for {
		now := time.Now().UnixNano()
		if h.wclosed || h.reset {
			return closedErr("write")
		}
		if h.rclosed {
			return nil // the peer is gone: the kernel takes the octets
		}
		c.wmu.Lock()
		wd := c.wdeadline
		c.wmu.Unlock()
		if wd != 0 && now >= wd {
			c.wmu.Lock()
			c.blockedTimeouts++
			c.wmu.Unlock()
			return &net.OpError{Op: "write", Net: "sim", Err: os.ErrDeadlineExceeded}
		}
		if until != 0 && now >= until {
			return nil
		}
		target := until
		if wd != 0 && (target == 0 || wd < target) {
			target = wd
		}
		if target != 0 {
			d := Dur(target - now)
			go func() {
				time.Sleep(d)
				h.mu.Lock()
				h.cond.Broadcast()
				h.mu.Unlock()
			}()
		}
		h.cond.Wait()
		h.mu.Unlock()
		sleepClass(c.wclass, 0)
		h.mu.Lock()
	}
}

// Close closes this endpoint: local reads fail, the peer reads EOF after the
// octets already written. It never sleeps (it is called under Conn.locker).
func (c *SimConn) Close() error {
	now := time.Now().UnixNano()
	if c.closeHook != nil {
		c.closeOnce.Do(c.closeHook)
	}
	c.rd.mu.Lock()
	already := c.rd.rclosed
	c.rd.rclosed = true
	c.rd.q = nil
	c.rd.cond.Broadcast()
	c.rd.mu.Unlock()

	c.wr.mu.Lock()
	if !c.wr.wclosed {
		c.wr.wclosed = true
		c.wr.closedAt = now
	}
	c.wr.cond.Broadcast()
	c.wr.mu.Unlock()
	if already {
		return closedErr("close")
	}
	return nil
}

// CloseWrite half-closes: the peer reads EOF, this endpoint can still read.
func (c *SimConn) CloseWrite() {
	now := time.Now().UnixNano()
	c.wr.mu.Lock()
	if !c.wr.wclosed {
		c.wr.wclosed = true
		c.wr.closedAt = now
	}
	c.wr.cond.Broadcast()
	c.wr.mu.Unlock()
}

// Reset aborts the connection: octets still in flight are lost and the peer
// reads ECONNRESET.
func (c *SimConn) Reset() {
	now := time.Now().UnixNano()
	c.rd.mu.Lock()
	c.rd.rclosed = true
	c.rd.q = nil
	c.rd.cond.Broadcast()
	c.rd.mu.Unlock()

	c.wr.mu.Lock()
	c.wr.reset = true
	c.wr.q = nil
	if c.wr.closedAt == 0 {
		c.wr.closedAt = now
	}
	c.wr.cond.Broadcast()
	c.wr.mu.Unlock()
}

func (c *SimConn) LocalAddr() net.Addr  { return c.local }
func (c *SimConn) RemoteAddr() net.Addr { return c.remote }

func (c *SimConn) SetDeadline(t time.Time) error {
	c.SetWriteDeadline(t)
	return c.SetReadDeadline(t)
}

func (c *SimConn) SetReadDeadline(t time.Time) error {
	h := c.rd
	h.mu.Lock()
	if h.rclosed {
		h.mu.Unlock()
		return closedErr("set")
	}
	if t.IsZero() {
		h.deadline = 0
	} else {
		h.deadline = t.UnixNano()
	}
	h.cond.Broadcast()
	h.mu.Unlock()
	return nil
}

// Writes never block in the simulation, but like a real connection a Write
// after the write deadline has passed fails with a timeout.
func (c *SimConn) SetWriteDeadline(t time.Time) error {
	c.wmu.Lock()
	if t.IsZero() {
		c.wdeadline = 0
	} else {
		c.wdeadline = t.UnixNano()
	}
	c.wmu.Unlock()
	return nil
}

// HalfRecord is the recorded traffic of one direction after a run.
type HalfRecord struct {
	Buf      []byte
	Writes   []WRec
	Reads    []RRec
	Consumed int
	ClosedAt int64
	Reset    bool
	Dropped  int
}

func (h *pipeHalf) record() HalfRecord {
	h.mu.Lock()
	defer h.mu.Unlock()
	return HalfRecord{Buf: h.buf, Writes: h.wlog, Reads: h.rlog, Consumed: h.consumed, ClosedAt: h.closedAt, Reset: h.reset, Dropped: h.dropped}
}

// ---------------------------------------------------------------------------

type tempAcceptErr struct{}

func (tempAcceptErr) Error() string   { return "accept: too many open files (simulated)" }
func (tempAcceptErr) Timeout() bool   { return false }
func (tempAcceptErr) Temporary() bool { return true }

var errAcceptPermanent = errors.New("accept: permanent failure (simulated)")

type acceptItem struct {
	conn     net.Conn
	err      error
	at       int64
	onAccept func()
}

// SimListener hands scripted connections and errors to Server.Serve.
type SimListener struct {
	lastAt   int64 // instant of the last result Accept handed out
	mu       sync.Mutex
	cond     *sync.Cond
	q        []acceptItem
	closed   bool
	CloseErr error
	class    int

	Accepted   int
	Errors     int
	CloseCalls int
	LateOffers int // connections offered after Close
	accepting  bool
}

// WaitAccepting blocks until Serve has called Accept for the first time, i.e.
// until the server has registered this listener.
func (l *SimListener) WaitAccepting() {
	l.mu.Lock()
	for !l.accepting && !l.closed {
		l.cond.Wait()
	}
	l.mu.Unlock()
	sleepClass(classMain, 0)
}

func NewSimListener(class int) *SimListener {
	l := &SimListener{class: class}
	l.cond = sync.NewCond(&l.mu)
	return l
}

// Offer queues a connection (or an Accept error) for the server.
func (l *SimListener) Offer(c net.Conn, err error, onAccept func()) bool {
	l.mu.Lock()
	defer l.mu.Unlock()
	if l.closed {
		l.LateOffers++
		return false
	}
	now := time.Now().UnixNano()
	l.q = append(l.q, acceptItem{conn: c, err: err, at: alignClass(now+1, l.class), onAccept: onAccept})
	l.cond.Broadcast()
	return true
}

func (l *SimListener) Accept() (net.Conn, error) {
	l.mu.Lock()
	defer l.mu.Unlock()
	if !l.accepting {
		l.accepting = true
		l.cond.Broadcast()
	}
	for {
		if l.closed {
			return nil, closedErr("accept")
		}
		if len(l.q) > 0 {
			now := time.Now().UnixNano()
			it := l.q[0]
			if it.at <= now && now < l.lastAt+classMod {
				// at most one result per microsecond: connections that queued up while the
				// Accept loop was held up are handed out at distinct instants, in queue order,
				// so that their goroutines never start at one and the same instant
				l.mu.Unlock()
				sleepClass(l.class, 0)
				l.mu.Lock()
				continue
			}
			if it.at <= now {
				l.lastAt = now
				l.q = l.q[1:]
				if it.err != nil {
					l.Errors++
					return nil, it.err
				}
				l.Accepted++
				if it.onAccept != nil {
					it.onAccept()
				}
				return it.conn, nil
			}
			l.mu.Unlock()
			time.Sleep(Dur(it.at - now))
			l.mu.Lock()
			continue
		}
		l.cond.Wait()
		l.mu.Unlock()
		sleepClass(l.class, 0)
		l.mu.Lock()
	}
}

func (l *SimListener) Close() error {
	l.mu.Lock()
	defer l.mu.Unlock()
	l.CloseCalls++
	if l.closed {
		return closedErr("close")
	}
	l.closed = true
	// connections still in the backlog are refused
	for _, it := range l.q {
		if it.conn != nil {
			it.conn.Close()
		}
	}
	l.q = nil
	l.cond.Broadcast()
	return l.CloseErr
}

func (l *SimListener) Addr() net.Addr { return simAddr("server:25") }
