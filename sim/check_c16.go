package sim

import (
	"bytes"
	"fmt"
	"strings"
	"time"
)

// C16 - a message written through the client arrives intact at a go-smtp
// backend. Real smtp.Client against the real smtp.Server.

const c16TokenBodies = 21845 // strings over the tokens {".", LF, CRLF, "x"} of length 0..7

func tokenBody(idx int) []byte {
	toks := []string{"x", ".", "\n", "\r\n"}
	n := 0
	count := 1
	for idx >= count {
		idx -= count
		n++
		count *= 4
	}
	ts := make([]int, n)
	for i := n - 1; i >= 0; i-- {
		ts[i] = idx % 4
		idx /= 4
	}
	var b []byte
	for _, k := range ts {
		b = append(b, toks[k]...)
	}
	return b
}

type c16X struct {
	Body        []byte
	From        string
	Rcpts       []string
	Reject      bool
	LMTP        bool
	UseCb       bool
	DataOp      int
	NoopOp      int
	ViaSendMail bool
	Slow        bool // the producer pauses longer than CommandTimeout between two writes
	SlowVerdict bool // the backend takes longer than CommandTimeout (but less than SubmissionTimeout) to decide
	Fault       int  // 0 none; the exchange is broken off: 1 Server.Close at some instant, 2 the backend panics inside Data, 3 a reply write of the server fails (and all later ones), 4 the server stops taking part for ever after some reply (blocked write)
}

// drawClientBody draws an 8-bit body in which CR occurs only as part of CRLF.
func drawClientBody(t *Tape, big bool) []byte {
	ntok := 1 + t.Intn(20)
	if big {
		ntok = 100 + t.Intn(150)
	}
	var b []byte
	for i := 0; i < ntok; i++ {
		switch t.Pick(5, 3, 2, 2, 1, 1, 1) {
		case 0:
			n := 1 + t.Intn(60)
			for j := 0; j < n; j++ {
				b = append(b, byte('a'+(i+j)%26))
			}
		case 1:
			b = append(b, "\r\n"...)
		case 2:
			b = append(b, "\n"...)
		case 3:
			b = append(b, "."...)
		case 4:
			b = append(b, "\r\n.\r\n"...) // an embedded end-of-data look-alike
		case 5:
			b = append(b, "\n.\n"...)
		default:
			n := 1 + t.Intn(6)
			for j := 0; j < n; j++ {
				c := t.Byte()
				if c == '\r' || c == '\n' {
					c = 0x80
				}
				b = append(b, c)
			}
		}
	}
	return b
}

func genC16(t *Tape, tier string) *Scenario {
	sc := &Scenario{Prop: "C16"}
	sc.Srv = drawCfg(t, cfgOpts{})
	sc.Srv.MaxRcpt = 0
	sc.Srv.MaxMsg = 0
	sc.Srv.MaxLine = 2000
	x := &c16X{LMTP: sc.Srv.LMTP, From: "ok-sender@a.example"}
	sc.X = x
	if sc.Srv.LMTP && t.Bool() {
		sc.BE.Flavor = beLMTP
	}
	forced := t.Named("c16body", c16TokenBodies+1)
	switch {
	case t.HasOver("c16body") && forced > 0:
		x.Body = tokenBody(forced - 1)
	case t.Chance(1, 4):
		x.Body = tokenBody(t.Intn(c16TokenBodies))
	default:
		x.Body = drawClientBody(t, t.Chance(1, 10))
	}
	n := 1 + t.Intn(3)
	for i := 0; i < n; i++ {
		x.Rcpts = append(x.Rcpts, fmt.Sprintf("ok-r%d@b.example", i))
	}
	x.Reject = t.Named("c16reject", 2) == 1
	dp := DataPlan{ReadSizes: drawReadSizes(t)}
	if x.Reject {
		dp.V = Verdict{Kind: vSMTP, Code: 550, Enh: [3]int{5, 7, 1}, Msg: "message refused by policy"}
	}
	if t.Chance(1, 12) {
		// a backend that takes six minutes over the message: longer than the client's
		// CommandTimeout, well inside its SubmissionTimeout - Close waits for the verdict
		dp.ParkAfter = 6 * time.Minute
		sc.Srv.ReadTO, sc.Srv.WriteTO = 0, 0
		x.SlowVerdict = true
	}
	sc.BE.Conns = []ConnBackendPlan{{Data: []DataPlan{dp}}}
	// partition of the body into Write calls
	var parts []int
	switch t.Pick(2, 3, 2, 2) {
	case 1:
		if len(x.Body) > 1 {
			parts = []int{1 + t.Intn(len(x.Body)-1), len(x.Body)}
		}
	case 2:
		parts = []int{1}
	case 3:
		k := 1 + t.Intn(4)
		for i := 0; i < k; i++ {
			parts = append(parts, 1+t.Intn(50))
		}
	}
	// a slow producer: the second Write comes later than the client's CommandTimeout (5 min)
	var gap Dur
	if len(x.Body) > 1 && t.Chance(1, 10) {
		gap = 6 * time.Minute
		sc.Srv.ReadTO = 0
		sc.Srv.WriteTO = []Dur{0, 30 * time.Second, 10 * time.Minute}[t.Intn(3)] // governs replies only
		if len(parts) == 0 {
			parts = []int{1 + t.Intn(len(x.Body)-1), len(x.Body)}
		}
		x.Slow = true
	}
	cl := &ClientScript{LMTP: sc.Srv.LMTP}
	switch t.Pick(3, 2, 2) {
	case 1:
		cl.Split = []int{1 + t.Intn(30)}
	case 2:
		cl.Split = []int{1 + t.Intn(5), 1 + t.Intn(100), 1 + t.Intn(3000)}
	}
	x.UseCb = sc.Srv.LMTP && t.Bool()
	x.ViaSendMail = !x.UseCb && t.Chance(1, 4)
	if x.ViaSendMail {
		// Client.SendMail: Mail, Rcpt..., Data, io.Copy from a reader that returns the body in parts, Close
		x.DataOp = len(cl.Ops)
		cl.Ops = append(cl.Ops, ClientOp{Kind: opSendMail, Arg: x.From, To: x.Rcpts, Body: x.Body, Parts: parts})
	} else {
		cl.Ops = append(cl.Ops, ClientOp{Kind: opMail, Arg: x.From})
		for _, r := range x.Rcpts {
			cl.Ops = append(cl.Ops, ClientOp{Kind: opRcpt, Arg: r})
		}
		x.DataOp = len(cl.Ops)
		cl.Ops = append(cl.Ops, ClientOp{Kind: opData, Body: x.Body, Parts: parts, CloseTwice: true, UseCb: x.UseCb, Gap: gap})
	}
	x.NoopOp = len(cl.Ops)
	cl.Ops = append(cl.Ops, ClientOp{Kind: opNoop}, ClientOp{Kind: opQuit})
	cs := ConnScript{Lat: drawLat(t), LatBack: drawLat(t), SrvCaps: drawCaps(t), Client: cl}
	cs.defaults()
	if t.Bool() {
		// the network re-cuts the server's replies: the client's reply parser meets
		// replies that arrive in pieces, also in the middle of a line or a CRLF
		cs.SrvFaults.WriteSplit = []int{1 + t.Intn(20), 1 + t.Intn(5)}
	}
	if !x.Slow && !x.SlowVerdict && t.Chance(1, 8) {
		// fault stratum: the exchange is broken off somewhere; the client may report
		// anything but a success the backend did not grant
		x.Fault = 1 + t.Intn(5)
		nrep := 3 + len(x.Rcpts) // greeting, hello, MAIL, RCPTs; then 354 and the final replies
		switch x.Fault {
		case 1:
			sc.Admin = []AdminStep{{At: Dur(t.Intn(60)) * 100 * time.Microsecond, Kind: aClose}}
		case 2:
			sc.BE.Conns[0].Data[0].V = Verdict{Kind: vPanic, Msg: "in Data"}
			sc.BE.Conns[0].Data[0].PanicWhen = t.Intn(3)
		case 3:
			cs.SrvFaults.FailWriteAt = 1 + t.Intn(nrep+2)
		case 5:
			// the client's own writes start to fail: a command, a flush in the middle of the
			// message, or the end marker never leaves
			cs.CliFailWriteAt = 1 + t.Intn(nrep+4)
		default:
			cs.SrvFaults.BlockWriteAt = 1 + t.Intn(nrep+2)
			sc.Srv.WriteTO = 0
		}
	}
	sc.Conns = []ConnScript{cs}
	sc.Strata = []string{fmt.Sprintf("lmtp%v/reject%v/cb%v", sc.Srv.LMTP, x.Reject, x.UseCb)}
	return sc
}

func checkC16(sc *Scenario, h *History) []Violation {
	var out []Violation
	x := sc.X.(*c16X)
	ch := h.Conns[0]
	wit := fmt.Sprintf("body=%q lmtp=%v reject=%v cb=%v", clip(string(x.Body), 80), x.LMTP, x.Reject, x.UseCb)
	v := func(rule, format string, a ...interface{}) {
		out = append(out, Violation{Rule: rule, Detail: fmt.Sprintf(format, a...), Witness: wit})
	}
	if x.Fault > 0 && ch.Client != nil && len(ch.Client.Results) <= x.NoopOp {
		return out // the client never got past the greeting: nothing was claimed
	}
	if ch.Client == nil || len(ch.Client.Results) <= x.NoopOp {
		v("C16.harness", "client did not run: %+v", ch.Client)
		return out
	}
	res := ch.Client.Results
	if x.Fault > 0 {
		// Only this is judged: a success reported to the caller is one the backend granted,
		// for exactly this message; and the client gives up within its own time limits.
		d := res[x.DataOp]
		wit += fmt.Sprintf(" fault=%d", x.Fault)
		granted := false
		for _, e := range dataEvents(h, 0) {
			if e.Done && !e.Panicked && e.Res == "" && e.SawEOF && bytes.Equal(e.Read, dotNormalize(x.Body)) {
				granted = true
			}
		}
		if len(x.Body) == 0 {
			granted = granted || len(dataEvents(h, 0)) > 0 && dataEvents(h, 0)[0].Done && dataEvents(h, 0)[0].Res == "" && !dataEvents(h, 0)[0].Panicked
		}
		claimed := !d.Skipped && d.Begin != 0 && d.DataErr == "" && d.WriteErr == "" && d.Err == ""
		if x.UseCb {
			claimed = false
			for _, s := range d.Statuses {
				if strings.HasSuffix(s, "=250") {
					claimed = true
				}
			}
		}
		for i := 0; i < x.DataOp; i++ {
			if res[i].Err != "" {
				claimed = false
			}
		}
		if claimed && !granted {
			v("C16.false-success", "the exchange was broken off (fault %d) and the backend never accepted this message, but the client reported success (Close=%q statuses=%v)", x.Fault, d.Err, d.Statuses)
		}
		for i, r := range res {
			// CommandTimeout is 5 minutes, SubmissionTimeout 12: no single call takes longer than both together
			if r.Begin != 0 && r.End-r.Begin > int64(18*time.Minute) {
				v("C16.hang", "client op %d (%s) took %v of fake time over a broken exchange", i, opNames[r.Kind], time.Duration(r.End-r.Begin))
				break
			}
		}
		return out
	}
	for i := 0; i < x.DataOp; i++ {
		if res[i].Err != "" {
			v("C16.envelope", "client op %d (%s) failed: %s", i, opNames[res[i].Kind], res[i].Err)
			return out
		}
	}
	// envelope
	mails := eventsOf(h, 0, "Mail")
	rcpts := eventsOf(h, 0, "Rcpt")
	if len(mails) != 1 || mails[0].Arg != x.From {
		v("C16.envelope", "backend saw sender %v, client gave %q", argsOf(mails), x.From)
	}
	if fmt.Sprint(argsOf(rcpts)) != fmt.Sprint(x.Rcpts) {
		v("C16.envelope", "backend saw recipients %v, client gave %v", argsOf(rcpts), x.Rcpts)
	}
	// message
	evs := dataEvents(h, 0)
	d := res[x.DataOp]
	if d.DataErr != "" || d.WriteErr != "" {
		v("C16.data", "Data()/Write failed: %q %q", d.DataErr, d.WriteErr)
		return out
	}
	if len(evs) != 1 {
		v("C16.data", "expected one Data call at the backend, got %d", len(evs))
		return out
	}
	want := dotNormalize(x.Body)
	got := evs[0].Read
	if !bytes.Equal(got, want) && !(len(x.Body) == 0 && (len(got) == 0 || string(got) == "\r\n")) {
		k := 0
		for k < len(got) && k < len(want) && got[k] == want[k] {
			k++
		}
		v("C16.octets", "body %q arrived as %q, expected %q (first difference at %d)", clip(string(x.Body), 100), clip(string(got), 100), clip(string(want), 100), k)
	}
	if !evs[0].SawEOF {
		v("C16.octets", "the backend's reader ended with %q, not EOF", evs[0].Terminal)
	}
	// verdict of the first Close
	switch {
	case x.UseCb:
		if d.Err != "" {
			v("C16.verdict", "LMTP Close with a status callback returned %q", d.Err)
		}
		wantCode := 250
		if x.Reject {
			wantCode = 550
		}
		var wantSt []string
		for _, r := range x.Rcpts {
			wantSt = append(wantSt, fmt.Sprintf("%s=%d", r, wantCode))
		}
		if fmt.Sprint(d.Statuses) != fmt.Sprint(wantSt) {
			v("C16.verdict", "status callback saw %v, expected %v", d.Statuses, wantSt)
		}
	case x.Reject:
		if !d.IsSMTP || d.Code != 550 {
			v("C16.verdict", "the backend rejected the message with 550 but Close returned %q (smtp=%v code=%d)", d.Err, d.IsSMTP, d.Code)
		}
	default:
		if d.Err != "" {
			v("C16.verdict", "the backend accepted the message but Close returned %q", d.Err)
		}
	}
	// second Close: an error, and nothing on the wire
	if d.Close2Set {
		if d.Close2Err == "" {
			v("C16.close-twice", "the second Close returned nil")
		}
		if d.RawAfter != d.RawBefore {
			v("C16.close-twice", "the second Close wrote %d octets to the connection: %q", d.RawAfter-d.RawBefore, clip(string(ch.C2S.Buf[minInt(d.RawBefore, len(ch.C2S.Buf)):minInt(d.RawAfter, len(ch.C2S.Buf))]), 40))
		}
	}
	if res[x.NoopOp].Err != "" {
		v("C16.after", "NOOP after the message failed: %s", res[x.NoopOp].Err)
	}
	if d.End-d.Begin > int64(time.Minute) && !x.Slow && !x.SlowVerdict {
		v("C16.slow", "the DATA exchange took %v of fake time", time.Duration(d.End-d.Begin))
	}
	return out
}

func argsOf(evs []*BEvent) []string {
	var s []string
	for _, e := range evs {
		s = append(s, e.Arg)
	}
	return s
}

func classifyC16(sc *Scenario, h *History, st *Stats) string {
	x := sc.X.(*c16X)
	nt := false
	if bytes.Contains(x.Body, []byte("\n.")) || bytes.HasPrefix(x.Body, []byte(".")) {
		st.Probes["line_starting_with_dot"]++
		nt = true
	}
	for i, c := range x.Body {
		if c == '\n' && (i == 0 || x.Body[i-1] != '\r') {
			st.Probes["bare_LF"]++
			nt = true
			break
		}
	}
	if bytes.Contains(x.Body, []byte("\r\n.\r\n")) || bytes.Contains(x.Body, []byte("\n.\n")) {
		st.Probes["embedded_end_of_data_lookalike"]++
		nt = true
	}
	if len(x.Body) > 0 && !bytes.HasSuffix(x.Body, []byte("\n")) {
		st.Probes["no_final_newline"]++
		nt = true
	}
	if len(x.Body) > 4096 {
		st.Probes["body_over_4096"]++
	}
	if x.Reject {
		st.Probes["rejected_then_close_twice"]++
	}
	if x.ViaSendMail {
		st.Probes["via_Client.SendMail"]++
	}
	if x.Slow {
		st.Faults["producer_pauses_longer_than_CommandTimeout"]++
	}
	if x.SlowVerdict {
		st.Faults["backend_verdict_later_than_CommandTimeout"]++
	}
	if x.Fault > 0 {
		st.Faults["exchange_broken_off_"+[]string{"", "by_Server.Close", "by_backend_panic", "by_failing_reply_write", "by_blocked_reply_write", "by_failing_client_write"}[x.Fault]]++
		if r := h.Conns[0].Client; r != nil && len(r.Results) > x.DataOp {
			if d := r.Results[x.DataOp]; d.Begin != 0 && (d.Err != "" || d.DataErr != "" || d.WriteErr != "") {
				st.Probes["client_reports_failure_of_broken_exchange"]++
			}
		}
	}
	if !nt {
		return ""
	}
	op := sc.Conns[0].Client.Ops[x.DataOp]
	return fmt.Sprintf("%s|%v|%v|%v|%v|%d", classString(x.Body, 80), clipInts(op.Parts, 4), x.LMTP, x.Reject, x.UseCb, len(x.Rcpts))
}

func init() {
	register(&Property{
		ID: "C16", Level: "exploration",
		Rule:     "real smtp.Client (NewClient/NewClientLMTP, Mail, Rcpt x1-3, Data or LMTPData, Close twice, Noop, Quit) against the real smtp.Server over the simulated transport; body = every string over the tokens {'.', LF, CRLF, x} up to length 7 (sweep; sampled in quick) or a seeded 8-bit body up to ~9000 octets with CR only inside CRLF and embedded end-of-data look-alikes; partition into Write calls: one, every 2-split, byte-wise, random sizes; backend verdict accept/reject; the transport re-cuts the client's writes into drawn segment sizes. Non-trivial: the body has a line starting with '.', a bare LF, a look-alike, or no final newline; distinct by (class string of the body, partition, mode, verdict, callback, recipients). Replies re-cut by the network; a slow producer (6 min between writes) under WriteTimeout 0/30 s/10 min; a fault stratum in which the exchange is broken off (Server.Close, backend panic, failing or blocked reply writes, failing writes of the client itself) and only 'no success the backend did not grant, no call outlasting the client's time limits' is judged.",
		Gen:      genC16,
		Check:    checkC16,
		Classify: classifyC16,
		Sweep: func(tier string) []map[string]int {
			n := 3000
			if tier == "thorough" {
				n = c16TokenBodies * 4
			}
			out := make([]map[string]int, n)
			for i := range out {
				out[i] = map[string]int{"c16body": 1 + (i*7)%c16TokenBodies, "c16reject": (i / c16TokenBodies) % 2}
			}
			return out
		},
		Real:        []string{"smtp.Client (Mail, Rcpt, Data, LMTPData, dataCloser.Close, Noop, Quit)", "net/textproto DotWriter/Reader", "smtp.Server.Serve/handleConn", "smtp.Conn handlers", "dataReader", "lineLimitReader"},
		Stub:        []string{"net.Listener (SimListener)", "net.Conn (SimConn, re-segmenting)", "Backend/Session (SimBackend)", "clock (synctest)"},
		Assumptions: []string{"an empty body may arrive as \"\" or as a single CRLF", "bodies contain CR only as part of CRLF, as the property states"},
		Required:    []string{"bare_LF", "line_starting_with_dot", "embedded_end_of_data_lookalike", "no_final_newline", "producer_pauses_longer_than_CommandTimeout", "via_Client.SendMail", "rejected_then_close_twice", "exchange_broken_off_by_Server.Close", "exchange_broken_off_by_backend_panic", "exchange_broken_off_by_failing_reply_write", "exchange_broken_off_by_blocked_reply_write", "client_reports_failure_of_broken_exchange", "backend_verdict_later_than_CommandTimeout"},
		Instr:       true,
		QuickRuns:   150000, ThoroughRuns: 3000000,
	})
}
