package sim

import (
	"fmt"
	"strings"
	"time"

	"github.com/anishathalye/porcupine"
)

// C20 - no data races or deadlocks; Close and Shutdown end serving exactly once.

type c20X struct {
	Patterns  []int
	NAdmin    int
	Yield     bool
	Perm      bool
	EarlyStop bool // a Close/Shutdown may run before Serve has registered its listener
	LoopYield bool // the command loop parks at some of its yield points
}

var c20Patterns = []string{"bdat-rset-bdat", "lmtp-data-statuses", "bdat-quit", "bdat-disconnect", "data-twice", "bdat-stale-next-txn", "idle", "starttls", "bdat-empty-last"}

func c20Conn(t *Tape, sc *Scenario, idx int, pat int) (ConnScript, ConnBackendPlan) {
	var cp ConnBackendPlan
	p := func() Dur { return Dur(t.Intn(6)) * 400 * time.Microsecond }
	steps := []Step{{Kind: kGreetWait, Wait: 1}, {Kind: kHelo, Data: heloLine(sc.Srv), Wait: 1}}
	env := func(k int) {
		steps = append(steps, Step{Kind: kMail, Data: line("MAIL FROM:<ok-c%ds%d@a.example>", idx, k), Wait: 1, Pre: p()},
			Step{Kind: kRcpt, Data: line("RCPT TO:<ok-c%dr%d@b.example>", idx, k), Wait: 1})
		if sc.Srv.LMTP {
			steps = append(steps, Step{Kind: kRcpt, Data: line("RCPT TO:<ok-c%dq%d@b.example>", idx, k), Wait: 1})
		}
	}
	slow := func() DataPlan {
		return DataPlan{ReadSizes: drawReadSizes(t), ParkAfter: Dur(1+t.Intn(8)) * 500 * time.Microsecond, ParkBefore: Dur(t.Intn(3)) * 300 * time.Microsecond}
	}
	switch pat {
	case 0, 5: // chunk, abort (RSET or straight to the next MAIL after RSET), next transaction while the stale delivery is still returning
		env(0)
		steps = append(steps, Step{Kind: kBdat, Data: line("BDAT 12")}, Step{Kind: kPayload, Data: []byte("first chunk\r\n"[:12]), Wait: 1, Pre: p()})
		steps = append(steps, Step{Kind: kRset, Data: []byte("RSET\r\n"), Wait: 1, Pre: p()})
		env(1)
		steps = append(steps, Step{Kind: kBdat, Data: line("BDAT 8 LAST")}, Step{Kind: kPayload, Data: []byte("second\r\n"), Wait: -1, Pre: p()})
		cp.Data = []DataPlan{slow(), slow()}
		steps = append(steps, Step{Kind: kQuit, Data: []byte("QUIT\r\n"), Wait: 1, Pre: p()})
	case 1: // LMTP/DATA with parked statuses
		env(0)
		steps = append(steps, Step{Kind: kData, Data: []byte("DATA\r\n"), Wait: 1, Pre: p()}, Step{Kind: kBody, Data: []byte("hello\r\n.\r\n"), Need: 354, Wait: -1})
		dp := slow()
		if sc.BE.Flavor == beLMTP {
			dp.Statuses = []StatusCall{{Addr: fmt.Sprintf("ok-c%dr0@b.example", idx), V: Verdict{}, When: t.Intn(3), Park: Dur(t.Intn(4)) * 300 * time.Microsecond}}
		}
		cp.Data = []DataPlan{dp}
		steps = append(steps, Step{Kind: kQuit, Data: []byte("QUIT\r\n"), Wait: 1, Pre: p()})
	case 2: // QUIT inside a chunked transfer
		env(0)
		steps = append(steps, Step{Kind: kBdat, Data: line("BDAT 6")}, Step{Kind: kPayload, Data: []byte("chunk\n"), Wait: 1, Pre: p()})
		steps = append(steps, Step{Kind: kQuit, Data: []byte("QUIT\r\n"), Wait: 1, Pre: p()})
		cp.Data = []DataPlan{slow()}
	case 3: // the peer disconnects inside a chunked transfer
		env(0)
		steps = append(steps, Step{Kind: kBdat, Data: line("BDAT 6")}, Step{Kind: kPayload, Data: []byte("chunk\n"), Wait: 1, Pre: p()})
		steps = append(steps, Step{Kind: kStall, Pre: p()})
		cp.Data = []DataPlan{slow()}
	case 4:
		for k := 0; k < 2; k++ {
			env(k)
			steps = append(steps, Step{Kind: kData, Data: []byte("DATA\r\n"), Wait: 1}, Step{Kind: kBody, Data: []byte("hello\r\n.\r\n"), Need: 354, Wait: -1, Pre: p()})
			cp.Data = append(cp.Data, slow())
		}
		steps = append(steps, Step{Kind: kQuit, Data: []byte("QUIT\r\n"), Wait: 1, Pre: p()})
	case 7: // an upgrade to TLS (when the server offers it; otherwise STARTTLS is refused and the rest goes on in plaintext)
		if sc.Srv.TLS == tlsStart {
			if t.Bool() {
				env(0)
			}
			steps = append(steps, Step{Kind: kStartTLS, Data: []byte("STARTTLS\r\n"), Wait: 1, Pre: p()})
			steps = append(steps, Step{Kind: kHelo, Data: heloLine(sc.Srv), Wait: 1, Pre: p()})
		}
		env(1)
		steps = append(steps, Step{Kind: kData, Data: []byte("DATA\r\n"), Wait: 1}, Step{Kind: kBody, Data: []byte("hello\r\n.\r\n"), Need: 354, Wait: -1, Pre: p()})
		cp.Data = []DataPlan{slow()}
		steps = append(steps, Step{Kind: kQuit, Data: []byte("QUIT\r\n"), Wait: 1, Pre: p()})
	case 8: // a transfer that is open but has handed nothing to the backend yet when its LAST command arrives
		env(0)
		if t.Bool() {
			steps = append(steps, Step{Kind: kBdat, Data: line("BDAT 0"), Wait: 1, Pre: p()})
		}
		steps = append(steps, Step{Kind: kBdat, Data: line("BDAT 0 LAST"), Wait: -1, Pre: p(), Last: true})
		cp.Data = []DataPlan{slow()}
		steps = append(steps, Step{Kind: kQuit, Data: []byte("QUIT\r\n"), Wait: 1, Pre: p()})
	default: // a connection that just sits there
		steps = append(steps, Step{Kind: kStall, Pre: Dur(2+t.Intn(20)) * time.Millisecond})
		steps = append(steps, Step{Kind: kQuit, Data: []byte("QUIT\r\n"), Wait: 1})
	}
	if t.Chance(1, 3) {
		cp.ParkNewSession = Dur(1+t.Intn(6)) * 500 * time.Microsecond
	}
	if t.Chance(1, 3) {
		// a slow Logout (wherever the library calls it without its mutex: the session given up at STARTTLS)
		cp.ParkLogout = Dur(1+t.Intn(6)) * 400 * time.Microsecond
	}
	if t.Chance(1, 4) {
		cp.ParkMail = Dur(1+t.Intn(4)) * 400 * time.Microsecond
		cp.ParkRcpt = Dur(1+t.Intn(4)) * 400 * time.Microsecond
	}
	cs := ConnScript{DialAt: Dur(t.Intn(8)) * 500 * time.Microsecond, Lat: drawLat(t), Steps: steps, AcceptErrs: t.Pick(5, 1, 1, 1)}
	if t.Chance(1, 8) {
		cs.SrvFaults.FailWriteAt = 1 + t.Intn(8)
	} else if t.Chance(1, 6) {
		// the peer stops reading: Close and Shutdown meet a handler parked inside a reply write
		cs.SrvFaults.BlockWriteAt = 1 + t.Intn(8)
		cs.SrvFaults.BlockFor = []Dur{0, 3 * time.Millisecond, 30 * time.Second}[t.Intn(3)]
	}
	cs.defaults()
	cs.AwaitTO = 2 * time.Second
	cs.IdleEnd = 2 * time.Second
	if t.Chance(1, 6) {
		// a peer that connects and never says a word (under implicit TLS: never starts the
		// handshake); it hangs up after twenty minutes, long after everything else is over:
		// until then only Close or ReadTimeout end this connection (a Shutdown whose context
		// expires leaves it to the peer)
		cs.Silent = true
		cs.IdleEnd = 20 * time.Minute
	}
	cp.LogoutErr = t.Chance(1, 4)
	if t.Chance(1, 10) {
		// a Logout that panics: under Server.Close it runs with both mutexes held
		cp.PanicLogout = true
	}
	if t.Chance(1, 8) {
		// Reset is the one callback made with Conn.locker held: a panic in it is recovered by
		// the command loop, which then closes the connection - under the same mutex
		cp.PanicReset = 1 + t.Intn(3)
	}
	return cs, cp
}

func genC20(t *Tape, tier string) *Scenario {
	sc := &Scenario{Prop: "C20"}
	sc.Srv = drawCfg(t, cfgOpts{})
	sc.Srv.MaxRcpt, sc.Srv.MaxMsg = 0, 0
	if sc.Srv.MaxLine != 0 && sc.Srv.MaxLine < 200 {
		sc.Srv.MaxLine = 200
	}
	switch t.Pick(2, 1, 1) {
	case 1:
		sc.Srv.TLS = tlsImplicit
	case 2:
		sc.Srv.TLS = tlsStart
	}
	sc.Srv.Debug = false // Debug is an io.Writer the caller must make goroutine-safe; not part of the property
	if sc.Srv.LMTP && t.Bool() {
		sc.BE.Flavor = beLMTP
	}
	x := &c20X{}
	sc.X = x
	nconn := 1 + t.Intn(3)
	for i := 0; i < nconn; i++ {
		pat := t.Intn(len(c20Patterns))
		x.Patterns = append(x.Patterns, pat)
		cs, cp := c20Conn(t, sc, i, pat)
		sc.Conns = append(sc.Conns, cs)
		sc.BE.Conns = append(sc.BE.Conns, cp)
	}
	// admin events
	x.NAdmin = t.Named("c20admin", 4)
	for i := 0; i < x.NAdmin; i++ {
		a := AdminStep{At: Dur(t.Intn(30)) * 300 * time.Microsecond}
		if t.Bool() {
			a.Kind = aShutdown
			a.Timeout = []Dur{0, 2 * time.Millisecond, 50 * time.Millisecond, time.Second}[t.Intn(4)]
		}
		sc.Admin = append(sc.Admin, a)
	}
	for _, c := range sc.Conns {
		if c.Silent {
			// a Shutdown without a deadline rightly waits for ever for a peer that never hangs up
			for i := range sc.Admin {
				if sc.Admin[i].Kind == aShutdown && sc.Admin[i].Timeout == 0 {
					sc.Admin[i].Timeout = 50 * time.Millisecond
				}
			}
		}
	}
	if x.NAdmin >= 2 && t.Chance(1, 2) {
		// concurrent calls: same planned instant, and the yield hook parks each caller between the check of s.done and its closing
		x.Yield = true
		sc.YieldPark = Dur(1+t.Intn(4)) * 100 * time.Microsecond
		for i := 1; i < len(sc.Admin); i++ {
			if t.Bool() {
				sc.Admin[i].At = sc.Admin[0].At
			}
		}
	}
	if x.NAdmin >= 1 && t.Chance(1, 3) {
		// the command loop parks at a drawn subset of its yield points, so that Server.Close
		// can land between two steps that no blocking operation separates
		if sc.YieldPark == 0 {
			sc.YieldPark = Dur(1+t.Intn(6)) * 100 * time.Microsecond
		}
		// (the two points inside Close and Shutdown park for the same time as the others: when
		// they are off, a call can land inside a window that a parked connection holds open)
		sc.YieldPoints = []string{}
		if x.Yield || t.Bool() {
			sc.YieldPoints = []string{"server.close", "server.shutdown"}
		}
		for _, p := range []string{"conn.reset", "conn.bdat.open", "conn.bdat.last", "conn.loop", "conn.woken", "serve.conn"} {
			if t.Bool() {
				sc.YieldPoints = append(sc.YieldPoints, p)
				x.LoopYield = true
			}
		}
	}
	if x.NAdmin >= 1 && t.Chance(1, 8) {
		// Close/Shutdown racing with the start of Serve: the actors do not wait for Serve to register its listener
		sc.NoWaitServe = true
		sc.ServeDelay = Dur(t.Intn(4)) * 100 * time.Microsecond
		sc.Admin[0].At = Dur(t.Intn(4)) * 100 * time.Microsecond
		x.EarlyStop = true
	}
	sc.AcceptTailTemp = t.Pick(4, 1, 1)
	if x.NAdmin == 0 && t.Chance(1, 3) {
		sc.AcceptPermanent = true
		x.Perm = true
	}
	sc.ListenerCloseErr = t.Chance(1, 6)
	sc.Settle = time.Hour
	sc.Strata = []string{fmt.Sprintf("conns%d/admin%d/yield%v", nconn, x.NAdmin, x.Yield)}
	return sc
}

// closedRegister is the sequential model of Server.Close/Shutdown: the first
// call that finds the server open closes it and reports the result of closing
// the listeners (or its context's error); every later one reports ErrServerClosed.
var closedRegister = porcupine.Model{
	Init: func() interface{} { return false },
	Step: func(state, input, output interface{}) (bool, interface{}) {
		closed := state.(bool)
		res := output.(string)
		if !closed {
			return res != "smtp: server already closed", true
		}
		return res == "smtp: server already closed", true
	},
	DescribeOperation: func(input, output interface{}) string {
		return fmt.Sprintf("%v -> %q", input, output)
	},
}

func checkC20(sc *Scenario, h *History) []Violation {
	var out []Violation
	x := sc.X.(*c20X)
	wit := fmt.Sprintf("patterns=%v admin=%d yield=%v perm=%v", x.Patterns, x.NAdmin, x.Yield, x.Perm)
	v := func(rule, format string, a ...interface{}) {
		if len(out) < 4 {
			out = append(out, Violation{Rule: rule, Detail: fmt.Sprintf(format, a...), Witness: wit})
		}
	}
	// (b) deadlock, (c) nobody left behind
	if h.Leaked > 0 {
		v("C20.goroutine-left", "%d goroutines are still there one fake hour after everything ended:\n%s", h.Leaked, clip(h.LeakDump, 3000))
	} else if h.BubblePanic != "" {
		v("C20.deadlock", "%s", h.BubblePanic)
	}
	for _, c := range h.Conns {
		if c.SrvBlockedUnderLock > 0 {
			v("C20.deadlock", "connection %d: a reply write that blocks for ever (the peer does not read, no write deadline) was issued while Conn.locker was held; Server.Close needs that lock to end the connection and can never return", c.ID)
			break
		}
	}
	// no call panics
	for i, a := range h.Admin {
		if a.Panic != "" {
			kind := "Close"
			if a.Kind == aShutdown {
				kind = "Shutdown"
			}
			v("C20.admin-panic", "call %d (%s) panicked: %s", i, kind, a.Panic)
		}
	}
	if strings.HasPrefix(h.FinalCloseErr, "panic:") {
		v("C20.admin-panic", "Close panicked: %s", h.FinalCloseErr)
	}
	for _, l := range h.Logs {
		if strings.HasPrefix(l, "panic serving") && !strings.Contains(l, "simulated backend panic") {
			v("C20.recovered-panic", "a handler panicked (recovered): %s", clip(l, 1200))
		}
	}
	// (d) Close/Shutdown as an open->closed register, checked for linearizability
	var ops []porcupine.Operation
	for i, a := range h.Admin {
		if !a.Returned {
			if a.Panic == "" {
				v("C20.admin-stuck", "call %d never returned", i)
			}
			continue
		}
		kind := "Close"
		if a.Kind == aShutdown {
			kind = "Shutdown"
		}
		ops = append(ops, porcupine.Operation{ClientId: i, Input: kind, Call: a.CallSeq, Output: a.Err, Return: a.RetSeq})
	}
	if len(ops) > 0 {
		// the harness's own final Close comes after everything
		ops = append(ops, porcupine.Operation{ClientId: len(h.Admin), Input: "Close(final)", Call: 1 << 40, Output: h.FinalCloseErr, Return: 1<<40 + 1})
		res := porcupine.CheckOperationsTimeout(closedRegister, ops, 10*time.Second)
		if res == porcupine.Illegal {
			var d []string
			for _, o := range ops {
				d = append(d, fmt.Sprintf("%v[%d..%d]=%q", o.Input, o.Call, o.Return, o.Output))
			}
			v("C20.close-once", "the Close/Shutdown history is not linearizable against an open->closed register: %s", strings.Join(d, " "))
		}
	} else if h.FinalCloseErr != "" && !sc.ListenerCloseErr && !strings.HasPrefix(h.FinalCloseErr, "panic") {
		v("C20.close-result", "the only Close returned %q", h.FinalCloseErr)
	}
	// Serve returns: nil after Close/Shutdown, exactly the permanent Accept error otherwise
	if !h.ServeReturned {
		v("C20.serve-stuck", "Serve has not returned although the server was closed")
	} else if x.Perm {
		if h.ServeErr != errAcceptPermanent.Error() {
			v("C20.accept-permanent", "Serve returned %q, expected the permanent Accept error", h.ServeErr)
		}
	} else if h.ServeErr != "" && !(x.EarlyStop && h.ServeErr == "smtp: server already closed") {
		v("C20.serve-result", "Serve returned %q after Close/Shutdown", h.ServeErr)
	}
	// connections: every one that the listener accepted was served (temporary Accept errors are survived) and ended
	firstStop := int64(1 << 62)
	for _, a := range h.Admin {
		if a.CallAt != 0 && a.CallAt < firstStop {
			firstStop = a.CallAt
		}
	}
	for i, c := range h.Conns {
		if !c.Accepted {
			continue
		}
		if len(c.Recv) == 0 && c.S2C.ClosedAt == 0 {
			v("C20.not-served", "connection %d was accepted but never greeted nor closed", i)
		}
		if c.S2C.ClosedAt == 0 {
			v("C20.conn-left-open", "connection %d was still open at the end", i)
		}
	}
	// Close ends every connection: when the call that closed the server returns, every
	// connection accepted before it was made has been closed by the server
	for i, a := range h.Admin {
		if a.Kind != aClose || !a.Returned || a.Err == "smtp: server already closed" {
			continue
		}
		for j, c := range h.Conns {
			// (a connection that Accept had handed out but whose goroutine had not got as far as
			// registering it is ended as soon as that goroutine runs: later than the return of
			// Close, but without a single octet having been written to it)
			if c.Accepted && c.AcceptedAt < a.CallAt && (c.S2C.ClosedAt == 0 || c.S2C.ClosedAt > a.RetAt && len(c.S2C.Buf) > 0) {
				v("C20.close-leaves-conn", "Close (call %d, returned %q at t=%d) left connection %d open (closed at t=%d)", i, a.Err, a.RetAt-h.Start, j, c.S2C.ClosedAt-h.Start)
			}
		}
	}
	// every session logged out exactly once
	created := map[int]bool{}
	logouts := map[int]int{}
	for _, e := range h.Events {
		if e.Kind == "NewSession" && e.Res == "" && !e.Panicked {
			created[e.Sess] = true
		}
		if e.Kind == "Logout" {
			logouts[e.Sess]++
		}
	}
	for id := range created {
		if logouts[id] != 1 {
			v("C20.logout", "session %d was logged out %d times", id, logouts[id])
		}
	}
	// Shutdown: returns nil only once the active connections have finished, or its context's error at the deadline
	for i, a := range h.Admin {
		if a.Kind != aShutdown || !a.Returned {
			continue
		}
		switch a.Err {
		case "":
			for j, c := range h.Conns {
				if c.Accepted && c.S2C.ClosedAt != 0 && c.S2C.ClosedAt > a.RetAt && (len(c.C2S.Reads) > 0 && c.C2S.Reads[0].At < a.CallAt || c.AcceptedAt < a.CallAt && len(c.S2C.Buf) > 0) {
					v("C20.shutdown-early", "Shutdown (call %d) returned nil at t=%d while connection %d was still being served (it ended at t=%d)", i, a.RetAt-h.Start, j, c.S2C.ClosedAt-h.Start)
				}
			}
		case "context deadline exceeded":
			if a.RetAt-a.CallAt < int64(sc.Admin[i].Timeout) {
				v("C20.shutdown-deadline", "Shutdown (call %d) reported the deadline after %v, before its %v deadline", i, time.Duration(a.RetAt-a.CallAt), sc.Admin[i].Timeout)
			}
		}
	}
	return out
}

func classifyC20(sc *Scenario, h *History, st *Stats) string {
	x := sc.X.(*c20X)
	for _, a := range h.Admin {
		if a.Err == "smtp: server already closed" {
			st.Probes["second_close_or_shutdown"]++
		}
		if a.Err == "context deadline exceeded" {
			st.Probes["shutdown_context_expired"]++
		}
	}
	if n := serveConnParks.Swap(0); n > 0 {
		st.Probes["connection_goroutine_parked_before_registering"]++
	}
	for i := range sc.Conns {
		if c := h.Conns[i]; c.Accepted {
			for _, a := range h.Admin {
				if a.CallAt != 0 && c.AcceptedAt < a.CallAt && (len(c.S2C.Writes) == 0 || c.S2C.Writes[0].At > a.CallAt) {
					st.Probes["server_stopped_between_accept_and_greeting"]++
					break
				}
			}
		}
		if c := h.Conns[i]; c.Accepted && len(c.S2C.Buf) == 0 && c.S2C.ClosedAt != 0 {
			for _, a := range h.Admin {
				if a.Returned && c.AcceptedAt < a.CallAt && c.S2C.ClosedAt > a.RetAt {
					st.Probes["connection_accepted_but_not_yet_registered_when_the_server_stopped"]++
					break
				}
			}
		}
		if h.Conns[i].HandshakeDone && sc.Srv.TLS == tlsStart {
			st.Probes["starttls_upgrade_completed"]++
		}
	}
	for i, c := range sc.Conns {
		if c.Silent && h.Conns[i].Accepted {
			st.Faults["silent_peer"]++
			if sc.Srv.TLS == tlsImplicit {
				st.Faults["silent_peer_stalls_the_implicit_TLS_handshake"]++
			}
		}
	}
	evs := h.Events
	for i := range evs {
		if (evs[i].Kind == "Data" || evs[i].Kind == "LMTPData") && evs[i].Done {
			for j := range evs {
				if j != i && evs[j].Conn == evs[i].Conn && evs[j].Begin > evs[i].Begin && evs[j].Begin < evs[i].End && evs[j].Kind != "Reset" {
					st.Probes["callback_overlaps_running_delivery"]++
					break
				}
			}
		}
	}
	for _, c := range h.Conns {
		if c.S2C.ClosedAt != 0 {
			for _, a := range h.Admin {
				if a.Kind == aClose && a.CallAt != 0 && c.S2C.ClosedAt >= a.CallAt && c.S2C.ClosedAt <= a.RetAt {
					st.Probes["connection_closed_by_Server.Close"]++
				}
			}
		}
	}
	for _, e := range h.Events {
		if e.Kind == "Logout" && e.Panicked {
			st.Probes["backend_panics_in_Logout"]++
			break
		}
	}
	for i := range evs {
		if evs[i].Kind == "Reset" && evs[i].Panicked {
			st.Probes["backend_panics_in_Reset_under_the_connection_mutex"]++
			break
		}
	}
	if x.Yield {
		st.Probes["close_shutdown_overlap_via_yield_hook"]++
	}
	if x.LoopYield {
		st.Probes["command_loop_parks_at_yield_points"]++
	}
	if x.EarlyStop && h.ServeErr == "smtp: server already closed" {
		st.Probes["serve_started_after_close"]++
	}
	if h.Races > 0 {
		st.Probes["race_reports"] += h.Races
	}
	return fmt.Sprintf("%v|%d|%v|%v|%s", x.Patterns, x.NAdmin, x.Yield, x.Perm, h.Shape())
}

func init() {
	register(&Property{
		ID: "C20", Level: "exploration", Race: true,
		Rule:     "1-3 connections, each running one of seven transfer patterns (chunk-RSET-chunk with slow stale deliveries, LMTP DATA with parked statuses, QUIT or disconnect inside a chunked transfer, two DATA transactions, idle) with drawn pauses between steps, plus 0-3 Server.Close / Shutdown(ctx with a fake deadline of 0, 2ms, 50ms, 1s) calls at drawn instants - overlapping through the VerifYield hook in half of the multi-call runs - and scripted temporary/permanent Accept errors and a failing listener Close. Every scenario runs twice: in the plain build (deadlock, leak, linearizability of Close/Shutdown against an open->closed register with porcupine, Serve's result, Shutdown's waiting) and in a -race build where the Go race detector is the oracle. Distinct by (patterns, admin calls, yield, event shape); every case is non-trivial. A reply write blocked by a peer that does not read (for ever, 3 ms, 30 s) while Close/Shutdown run; a backend whose Logout fails; a backend whose n-th Reset panics (with Conn.locker held); a backend whose Logout panics (under Server.Close: with both mutexes held).",
		Gen:      genC20,
		Check:    checkC20,
		Classify: classifyC20,
		Sweep: func(tier string) []map[string]int {
			reps := 400
			if tier == "thorough" {
				reps = 40000
			}
			var out []map[string]int
			for r := 0; r < reps; r++ {
				for a := 0; a < 4; a++ {
					out = append(out, map[string]int{"c20admin": a})
				}
			}
			return out
		},
		Real:        []string{"smtp.Server Serve/handleConn/Close/Shutdown", "smtp.Conn (every handler, Close, reset)", "BDAT and LMTP delivery goroutines", "io.Pipe", "sync primitives of the library", "Go race detector (second build)"},
		Stub:        []string{"net.Listener (SimListener with scripted Accept errors)", "net.Conn (SimConn)", "Backend (SimBackend; sync-silent after a park so that it adds no happens-before edge)", "clock (synctest)", "SMTP clients (raw drivers)", "VerifYield hook (build tag verif) between the test and the closing of Server.done"},
		Assumptions: []string{"the simulation cannot block a goroutine that holds a mutex (the fake clock would stop): a write without a deadline issued while Conn.locker is held is reported as the deadlock it is for a peer that does not read; the mutex is probed through a guarded hook, never in the race-detector build", "interleavings are controlled at blocking points and at the two yield hooks only; the race detector covers memory-level races inside straight-line stretches", "a porcupine timeout is inconclusive and never reported"},
		Required:    []string{"callback_overlaps_running_delivery", "close_shutdown_overlap_via_yield_hook", "command_loop_parks_at_yield_points", "connection_closed_by_Server.Close", "second_close_or_shutdown", "serve_started_after_close", "shutdown_context_expired", "accept_permanent", "accept_temporary", "reply_write_failed", "silent_peer", "silent_peer_stalls_the_implicit_TLS_handshake", "reply_write_blocked_peer_not_reading", "starttls_upgrade_completed", "connection_goroutine_parked_before_registering", "backend_panics_in_Reset_under_the_connection_mutex", "backend_panics_in_Logout"},
		Instr:       true,
		QuickRuns:   10000, ThoroughRuns: 800000,
	})
}
