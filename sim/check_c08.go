package sim

import (
	"fmt"
	"strings"
	"time"
)

// C08 - each session is logged out exactly once; nothing runs after the
// connection ends. Fault enumeration over C07's corpus and cuts, plus every
// server-initiated ending followed by commands that are already buffered.

type c08X struct {
	Frag   string // idle timeout: what the client had sent of a command line when it fell silent
	Kind   int    // 0 corpus+cuts, 1 QUIT, 2 error flood, 3 over-long line, 4 idle timeout, 5 backend panic, 6 Server.Close, 7 STARTTLS vs Server.Close
	Conv   *convX
	Where  string
	Suffix []string
	Self   bool // the server closes the connection on its own initiative (kinds 1-5)
}

var c08Kinds = []string{"corpus+cut", "QUIT", "error-flood", "over-long-line", "idle-timeout", "backend-panic", "Server.Close", "STARTTLS-vs-Close"}

func c08Suffix(t *Tape, x *c08X) []Step {
	n := t.Intn(5)
	var out []Step
	for i := 0; i < n; i++ {
		var l string
		switch t.Pick(2, 3, 2, 1, 1, 1, 1) {
		case 0:
			l = "EHLO again.example"
		case 1:
			l = fmt.Sprintf("MAIL FROM:<ok-after-%d@late.example>", i)
		case 2:
			l = fmt.Sprintf("RCPT TO:<ok-after-%d@late.example>", i)
		case 3:
			l = "NOOP"
		case 4:
			l = "RSET"
		case 5:
			l = "BDAT 0"
		default:
			// a LAST chunk with its payload: starts a delivery that may still be pending
			l = fmt.Sprintf("BDAT 17 LAST\r\nok-after-%d data", i)
		}
		x.Suffix = append(x.Suffix, l)
		out = append(out, Step{Kind: kMarker, Data: []byte(l + "\r\n")})
	}
	return out
}

func genC08(t *Tape, tier string) *Scenario {
	sc := &Scenario{Prop: "C08"}
	x := &c08X{}
	sc.X = x
	x.Kind = t.Named("c08kind", 8)
	if !t.HasOver("c08kind") {
		x.Kind = 0 // seeded runs build the corpus; the other kinds are swept
	}
	if x.Kind == 0 {
		x.Conv = genConversation(t, sc, true)
		return sc
	}
	sc.Srv = drawCfg(t, cfgOpts{})
	sc.Srv.MaxRcpt = 0
	if sc.Srv.LMTP && t.Bool() {
		sc.BE.Flavor = beLMTP
	}
	x.Self = x.Kind >= 1 && x.Kind <= 5
	var cp ConnBackendPlan
	steps := []Step{{Kind: kGreetWait, Wait: 1}}
	hello := Step{Kind: kHelo, Data: heloLine(sc.Srv), Wait: 1}
	// prefix: where in the conversation the ending strikes
	pos := t.Intn(5) // 0 before greeting, 1 greeted, 2 after MAIL, 3 after RCPT, 4 inside a chunked transfer
	x.Where = []string{"before-helo", "greeted", "after-mail", "after-rcpt", "in-bdat-transfer"}[pos]
	panicWhere := ""
	if x.Kind == 5 {
		panicWhere = []string{"NewSession", "Mail", "Rcpt", "Data", "Reset"}[t.Intn(5)]
		x.Where = "panic-in-" + panicWhere
		switch panicWhere {
		case "NewSession":
			pos = 0
		case "Mail":
			pos = 1
		case "Rcpt":
			pos = 2
		case "Reset":
			pos = 1 + t.Intn(3)
		default:
			pos = 3
		}
	}
	if x.Kind == 7 {
		pos = 1 + t.Intn(4)
		x.Where = []string{"before-helo", "greeted", "after-mail", "after-rcpt", "in-bdat-transfer"}[pos]
		sc.Srv.TLS = tlsStart
	}
	if pos >= 1 {
		steps = append(steps, hello)
	}
	if pos >= 2 {
		steps = append(steps, Step{Kind: kMail, Data: line("MAIL FROM:<ok-s@a.example>"), Wait: 1})
	}
	if pos >= 3 {
		steps = append(steps, Step{Kind: kRcpt, Data: line("RCPT TO:<ok-r@b.example>"), Wait: 1})
	}
	if pos >= 4 {
		n := t.Intn(40)
		if t.Chance(1, 3) {
			n = 0 // an empty chunk opens the transfer; the delivery itself has not started yet
		}
		steps = append(steps, Step{Kind: kBdat, Data: line("BDAT %d", n)})
		if n > 0 {
			steps = append(steps, Step{Kind: kPayload, Data: mkMessage(maxInt(n, 2))[:n], Wait: 1})
		} else {
			steps[len(steps)-1].Wait = 1
		}
		cp.Data = append(cp.Data, DataPlan{ReadSizes: drawReadSizes(t), ParkAfter: t.Dur()})
	}
	// the ending trigger; the suffix follows in the same segment (glue) or later
	glue := t.Chance(2, 3)
	var trig []Step
	switch x.Kind {
	case 1:
		trig = []Step{{Kind: kQuit, Data: []byte("QUIT\r\n")}}
	case 2:
		for i := 0; i < 4; i++ {
			trig = append(trig, Step{Kind: kGarbage, Data: line("XYZZY%d nonsense", i)})
		}
	case 3:
		if sc.Srv.MaxLine == 0 || sc.Srv.MaxLine > 2000 {
			sc.Srv.MaxLine = 200
		}
		long := strings.Repeat("A", sc.Srv.MaxLine+50)
		trig = []Step{{Kind: kGarbage, Data: []byte("NOOP " + long + "\r\n")}}
	case 4:
		sc.Srv.ReadTO = 10 * time.Minute
		trig = []Step{{Kind: kStall, Pre: 11 * time.Minute}}
		if t.Bool() {
			// the client falls silent in the middle of a command line
			x.Frag = []string{"NOOP", "RSET", "MAIL FROM:<ok-after-frag@late.example>", "MAIL FR", "QUI", "BDAT 5"}[t.Intn(6)]
			trig = []Step{{Kind: kGarbage, Data: []byte(x.Frag)}, {Kind: kStall, Pre: 11 * time.Minute}}
		}
		glue = false
	case 5:
		switch panicWhere {
		case "NewSession":
			cp.NewSession = []Verdict{{Kind: vPanic, Msg: "in NewSession"}}
			trig = []Step{hello}
		case "Mail":
			trig = []Step{{Kind: kMail, Data: line("MAIL FROM:<pn-s@a.example>")}}
		case "Rcpt":
			trig = []Step{{Kind: kRcpt, Data: line("RCPT TO:<pn-r@b.example>")}}
		case "Reset":
			// Reset is the one callback made with the connection's mutex held
			cp.PanicReset = 1
			trig = []Step{{Kind: kRset, Data: []byte("RSET\r\n")}}
		default:
			cp.Data = append(cp.Data, DataPlan{V: Verdict{Kind: vPanic, Msg: "in Data"}, PanicWhen: t.Intn(2)})
			if t.Bool() {
				trig = []Step{{Kind: kData, Data: []byte("DATA\r\n")}, {Kind: kBody, Data: []byte("hello\r\n.\r\n")}}
			} else {
				trig = []Step{{Kind: kBdat, Data: []byte("BDAT 7 LAST\r\n")}, {Kind: kPayload, Data: []byte("hello\r\n")}}
			}
		}
	case 6:
		sc.Admin = []AdminStep{{At: Dur(t.Intn(12)) * 500 * time.Microsecond, Kind: aClose}}
		glue = false
		// slow callbacks, so that Server.Close also lands inside NewSession, Mail or Rcpt
		if t.Bool() {
			cp.ParkNewSession = Dur(1+t.Intn(8)) * 500 * time.Microsecond
		}
		if t.Bool() {
			cp.ParkMail = Dur(1+t.Intn(4)) * 500 * time.Microsecond
			cp.ParkRcpt = Dur(1+t.Intn(4)) * 500 * time.Microsecond
		}
	case 7:
		// STARTTLS: the old session's Logout parks (it is not under Conn.locker there) while Server.Close fires
		cp.ParkLogout = Dur(1+t.Intn(5)) * time.Millisecond
		trig = []Step{{Kind: kStartTLS, Data: []byte("STARTTLS\r\n"), Wait: 1}}
		sc.Admin = []AdminStep{{At: Dur(t.Intn(20)) * 500 * time.Microsecond, Kind: aClose}}
		glue = false
	}
	suffix := c08Suffix(t, x)
	all := append(trig, suffix...)
	for i := range all {
		if glue && i < len(all)-1 {
			all[i].Glue = true
		} else if !glue && i >= len(trig) && i == len(trig) && len(trig) > 0 {
			all[i].Pre = t.Dur()
		}
	}
	steps = append(steps, all...)
	cs := ConnScript{Lat: drawLat(t), SrvCaps: drawCaps(t), Steps: steps}
	if t.Chance(1, 8) {
		// the n-th reply write fails (and every later one): the peer is gone as far as writing is concerned
		cs.SrvFaults.FailWriteAt = 1 + t.Intn(6)
		cs.AwaitTO = 5 * time.Second
	} else if t.Chance(1, 8) {
		// the peer stops reading: the n-th reply write blocks for a while, until WriteTimeout, or for ever
		cs.SrvFaults.BlockWriteAt = 1 + t.Intn(6)
		cs.SrvFaults.BlockFor = []Dur{0, 30 * time.Second, 11 * time.Minute}[t.Intn(3)]
		if t.Bool() {
			sc.Srv.WriteTO = 10 * time.Minute
			cs.NoClose = true // the client stays connected, so that the deadline is what ends the write
		}
		cs.AwaitTO = 5 * time.Second
	}
	cs.defaults()
	cs.IdleEnd = 30 * time.Second
	sc.Conns = []ConnScript{cs}
	cp.LogoutErr = t.Chance(1, 3)
	if t.Chance(1, 10) {
		// a backend whose Logout panics: one more backend panic the server has to contain
		cp.PanicLogout = true
	}
	sc.BE.Conns = []ConnBackendPlan{cp}
	sc.Strata = []string{c08Kinds[x.Kind] + "/" + x.Where}
	return sc
}

func checkC08(sc *Scenario, h *History) []Violation {
	var out []Violation
	x := sc.X.(*c08X)
	wit := fmt.Sprintf("kind=%s where=%s suffix=%v", c08Kinds[x.Kind], x.Where, x.Suffix)
	if x.Conv != nil {
		wit = fmt.Sprintf("corpus cut=%d kind=%d of %d", x.Conv.Cut, x.Conv.CutKind, x.Conv.Total)
	}
	// A. exactly one Logout per session that was created
	created := map[int]*BEvent{}
	logouts := map[int][]*BEvent{}
	for _, e := range h.Events {
		if e.Kind == "NewSession" && e.Res == "" && !e.Panicked {
			created[e.Sess] = e
		}
		if e.Kind == "Logout" {
			logouts[e.Sess] = append(logouts[e.Sess], e)
		}
	}
	for id := range created {
		switch n := len(logouts[id]); {
		case n == 0:
			out = append(out, Violation{Rule: "C08.no-logout", Detail: fmt.Sprintf("session %d was never logged out", id), Witness: wit})
		case n > 1:
			out = append(out, Violation{Rule: "C08.double-logout", Detail: fmt.Sprintf("session %d was logged out %d times", id, n), Witness: wit})
		}
	}
	// B. no callback on a session begins after its Logout began
	for _, e := range h.Events {
		if e.Kind == "NewSession" || e.Kind == "Logout" {
			continue
		}
		if lo := logouts[e.Sess]; len(lo) > 0 && e.Seq > lo[0].Seq {
			out = append(out, Violation{Rule: "C08.callback-after-logout", Detail: fmt.Sprintf("%s(%s) began on session %d after its Logout had begun", e.Kind, e.Arg, e.Sess), Witness: wit + " cb=" + e.Kind + dataAbortTag(e)})
			break
		}
	}
	// C. nothing is executed once the server has closed the connection
	for _, c := range h.Conns {
		if c.SrvCloseSeq < 0 {
			continue
		}
		// Server.Close, called from another goroutine, may strike while a command is being
		// handled: between the moment the command loop saw the connection open and the
		// callback that command makes (reachable with the inserted yield points only). That
		// command is in flight, not a further one: its callback is not judged here (whether it
		// lands on a session already logged out is rule B's business); a second one is.
		inFlight := 0
		if sc.AutoYield != nil && closedByServerClose(h, c.S2C.ClosedAt) {
			inFlight = 1
		}
		for _, e := range h.Events {
			// (a Logout after the socket was closed is the one callback that is due:
			// a session whose NewSession was still running when Server.Close struck)
			if e.Conn == c.ID && e.Seq >= c.SrvCloseSeq && e.Kind != "Logout" {
				if inFlight > 0 && e.Kind != "Reset" {
					inFlight--
					continue
				}
				if e.Kind == "Reset" && sc.AutoYield != nil && closedByServerClose(h, c.S2C.ClosedAt) {
					continue // the transaction end of the command in flight
				}
				out = append(out, Violation{Rule: "C08.executed-after-close", Detail: fmt.Sprintf("%s(%s) began after the server had closed the connection", e.Kind, e.Arg), Witness: wit + " cb=" + e.Kind + dataAbortTag(e)})
				break
			}
		}
		if x.Self && c.SrvLateWrites > 0 {
			out = append(out, Violation{Rule: "C08.reply-after-close", Detail: fmt.Sprintf("the server tried to write %d more replies after it had closed the connection itself", c.SrvLateWrites), Witness: wit})
		}
	}
	// E. what the client sends after the server had reason to give up is not executed,
	// whether or not the server got round to closing (the error threshold is left to rule C)
	// (not judged when a reply write was blocked: the server then meets its input later than it was sent)
	if x.Self && x.Kind != 2 && sc.Conns[0].SrvFaults.BlockWriteAt == 0 {
		for _, e := range h.Events {
			if (e.Kind == "Mail" || e.Kind == "Rcpt") && strings.Contains(e.Arg, "ok-after-") {
				out = append(out, Violation{Rule: "C08.executed-after-giving-up", Detail: fmt.Sprintf("%s(%s) was executed although it follows the %s", e.Kind, e.Arg, c08Kinds[x.Kind]), Witness: wit})
				break
			}
		}
	}
	for _, c := range h.Conns {
		if c.SrvBlockedUnderLock > 0 {
			out = append(out, Violation{Rule: "C08.deadlock", Detail: "a reply write that blocks for ever (the peer does not read, no write deadline) was issued while Conn.locker was held: the connection can no longer be ended by Server.Close", Witness: wit})
			break
		}
	}
	// D. nobody is left behind
	if h.Leaked > 0 {
		out = append(out, Violation{Rule: "C08.goroutine-leak", Detail: fmt.Sprintf("%d goroutines still exist one fake hour after the connection ended:\n%s", h.Leaked, clip(h.LeakDump, 3000)), Witness: wit})
	}
	if strings.Contains(h.BubblePanic, "deadlock") && h.Leaked == 0 {
		out = append(out, Violation{Rule: "C08.deadlock", Detail: h.BubblePanic, Witness: wit})
	}
	if !h.ServeReturned {
		out = append(out, Violation{Rule: "C08.serve-stuck", Detail: "Serve did not return after Close", Witness: wit})
	}
	return out
}

// dataAbortTag marks the one callback shape that known finding K01 covers.
func dataAbortTag(e *BEvent) string {
	if (e.Kind == "Data" || e.Kind == "LMTPData") && len(e.Read) == 0 && e.Terminal == "smtp: message transmission aborted" {
		return "/aborted-before-start"
	}
	return ""
}

func classifyC08(sc *Scenario, h *History, st *Stats) string {
	x := sc.X.(*c08X)
	if x.Conv != nil {
		saved := sc.X
		sc.X = x.Conv
		fp := classifyConv(sc, h, st)
		sc.X = saved
		if fp == "" {
			return ""
		}
		return "conv|" + fp
	}
	c := h.Conns[0]
	if c.SrvCloseSeq >= 0 {
		st.Probes["server_closed_connection_"+c08Kinds[x.Kind]]++
	}
	if len(x.Suffix) > 0 {
		st.Probes["commands_buffered_behind_the_ending"]++
	}
	if x.Frag != "" {
		st.Faults["read_timeout_in_the_middle_of_a_command_line"]++
	}
	for _, e := range h.Events {
		if e.Kind == "Logout" && e.Res != "" {
			st.Faults["logout_returns_an_error"]++
		}
		if e.Kind == "Logout" && e.End-e.Begin > 0 {
			st.Probes["logout_parked_during_starttls"]++
		}
		if e.Kind == "NewSession" && c.S2C.ClosedAt > e.Begin && c.S2C.ClosedAt < e.End {
			st.Probes["server_close_lands_inside_NewSession"]++
		}
	}
	if c.HandshakeDone {
		st.Probes["starttls_completed"]++
	}
	for _, e := range h.Events {
		if e.Kind == "Logout" && e.Panicked {
			st.Probes["backend_panics_in_Logout"]++
			break
		}
	}
	return fmt.Sprintf("%d|%s|%v|%v|%v", x.Kind, x.Where, x.Suffix, sc.Srv.LMTP, sc.Conns[0].Steps[len(sc.Conns[0].Steps)-1].Glue)
}

// closedByServerClose: the instant lies inside a call of Server.Close made by the admin actor.
func closedByServerClose(h *History, at int64) bool {
	for _, a := range h.Admin {
		if a.Kind == aClose && a.CallAt != 0 && at >= a.CallAt && (!a.Returned || at <= a.RetAt) {
			return true
		}
	}
	return false
}

func init() {
	// F29: Server.Close logs the session out from its own goroutine while the connection's
	// goroutine stands between fetching the session and entering the callback of the command
	// it is handling.
	triggers["c08-server-close-logs-out-under-a-command-in-flight"] = func(sc *Scenario, h *History, v Violation) bool {
		if sc.AutoYield == nil {
			return false
		}
		logouts := map[int]*BEvent{}
		for _, e := range h.Events {
			if e.Kind == "Logout" && logouts[e.Sess] == nil {
				logouts[e.Sess] = e
			}
		}
		for _, e := range h.Events {
			if e.Kind == "NewSession" || e.Kind == "Logout" {
				continue
			}
			lo := logouts[e.Sess]
			if lo == nil || e.Seq <= lo.Seq {
				continue
			}
			// the first callback after its session's Logout: the Logout was made inside a call of
			// Server.Close, the callback is one a command handler makes, and the connection's
			// goroutine was parked at an inserted yield point when the Logout began
			if e.Kind != "Mail" && e.Kind != "Rcpt" && e.Kind != "Data" && e.Kind != "LMTPData" && e.Kind != "Auth" && e.Kind != "AuthMechanisms" {
				return false
			}
			if !closedByServerClose(h, lo.Begin) {
				return false
			}
			for _, p := range h.AutoParks {
				if p.At <= lo.Begin && lo.Begin <= p.Until {
					return true
				}
			}
			return false
		}
		return false
	}
	triggers["c08-data-aborted-before-start"] = func(sc *Scenario, h *History, v Violation) bool {
		return strings.HasSuffix(v.Witness, "/aborted-before-start")
	}
	register(&Property{
		ID: "C08", Level: "fault_enumeration",
		Rule:     "(a) C07's corpus with the connection cut at every octet offset (FIN; RST/half-close/stall sampled); (b) every server-initiated ending - 221 after QUIT, the fourth protocol error, an over-long line, the idle timeout, a backend panic in NewSession/Mail/Rcpt/Data, Server.Close at a drawn instant - struck at five conversation positions (before greeting ... inside a chunked transfer) and followed by every drawn suffix of 0-4 further commands in the same segment or later; (c) STARTTLS whose Logout parks while Server.Close fires. Non-trivial: the cut falls inside a transfer, or the server ended the connection; distinct by (kind, position, suffix, mode) resp. (offset, kind, conversation). Fault kinds drawn on top: the backend's Logout returns an error; the n-th reply write fails; the n-th reply write blocks (peer not reading) for 30 s, until WriteTimeout, or for ever; the idle timeout strikes in the middle of a command line. What follows the point where the server had reason to give up is never executed. In a tenth of the runs the backend's Logout panics (every time it is called): the session is still logged out once, nothing crashes and no mutex stays locked.",
		Gen:      genC08,
		Check:    checkC08,
		Classify: classifyC08,
		Expand: func(sc *Scenario, h *History, tier string) []map[string]int {
			x := sc.X.(*c08X)
			if x.Conv == nil {
				return nil
			}
			saved := sc.X
			sc.X = x.Conv
			out := expandCuts(sc, h, tier)
			sc.X = saved
			for _, o := range out {
				o["c08kind"] = 0
			}
			return out
		},
		Sweep: func(tier string) []map[string]int {
			reps := 600
			if tier == "thorough" {
				reps = 20000
			}
			var out []map[string]int
			for r := 0; r < reps; r++ {
				for k := 1; k < 8; k++ {
					out = append(out, map[string]int{"c08kind": k})
				}
			}
			return out
		},
		Real:        []string{"smtp.Server.Serve/handleConn/Close", "smtp.Conn command loop, Close, reset, handleStartTLS, panic recovery", "BDAT delivery goroutine", "crypto/tls (kind 7)", "net/textproto", "bufio"},
		Stub:        []string{"net.Listener (SimListener)", "net.Conn (SimConn) with cut/RST/half-close/stall", "Backend/Session (SimBackend, panics and parks from the plan)", "clock (synctest)", "SMTP client (raw driver)"},
		Assumptions: []string{"a write without a deadline issued while Conn.locker is held is reported as a connection that Server.Close can no longer end", "commands fully received before a peer disconnect may legitimately run; a final line cut before its CRLF is not judged", "callback order is the order in which callbacks began (global sequence number taken on entry)"},
		Required:    []string{"backend_panics_in_Logout", "commands_buffered_behind_the_ending", "server_close_lands_inside_NewSession", "logout_parked_during_starttls", "server_closed_connection_QUIT", "server_closed_connection_error-flood", "server_closed_connection_over-long-line", "server_closed_connection_idle-timeout", "server_closed_connection_backend-panic", "server_closed_connection_Server.Close", "server_closed_connection_STARTTLS-vs-Close", "reply_write_failed", "cut_fin", "cut_rst", "logout_returns_an_error", "read_timeout_in_the_middle_of_a_command_line", "reply_write_blocked_peer_not_reading", "blocked_write_ended_by_WriteTimeout"},
		Instr:       true,
		QuickRuns:   700, ThoroughRuns: 40000,
	})
}
