package sim

import (
	"bytes"
	"fmt"
	"strconv"
	"strings"
)

// ---------------------------------------------------------------------------
// Reference models. Written from RFC 5321 and the property statements, not
// from the implementation.

// unstuff is the reference for DATA transparency (RFC 5321 section 4.5.2):
// lines are delimited by CRLF only; a line consisting of a single "." ends the
// message; one leading "." is removed from every other line that starts with
// one. The CRLF that precedes the terminating "." belongs to the message.
// It returns the message, the number of stream octets up to and including the
// end marker, and whether the end marker was found.
func unstuff(stream []byte) (msg []byte, consumed int, complete bool) {
	pos := 0
	for pos <= len(stream) {
		// pos is at the beginning of a line
		if bytes.HasPrefix(stream[pos:], []byte(".\r\n")) {
			return msg, pos + 3, true
		}
		if pos < len(stream) && stream[pos] == '.' {
			pos++ // remove one leading dot
		}
		i := bytes.Index(stream[pos:], []byte("\r\n"))
		if i < 0 {
			msg = append(msg, stream[pos:]...)
			return msg, len(stream), false
		}
		msg = append(msg, stream[pos:pos+i+2]...)
		pos += i + 2
	}
	return msg, len(stream), false
}

// dotNormalize is the reference for what a message written through the
// client's DATA writer must look like at the backend: bare LF becomes CRLF and
// a final CRLF is ensured. Defined for inputs in which CR occurs only in CRLF.
func dotNormalize(body []byte) []byte {
	var out []byte
	for i := 0; i < len(body); i++ {
		c := body[i]
		if c == '\n' && (i == 0 || body[i-1] != '\r') {
			out = append(out, '\r', '\n')
			continue
		}
		out = append(out, c)
	}
	if len(out) > 0 && !bytes.HasSuffix(out, []byte("\r\n")) {
		out = append(out, '\r', '\n')
	}
	return out
}

// dotStuff is the reference sender-side transformation (used only to
// cross-check unstuff in the harness's unit tests).
func dotStuff(msg []byte) []byte {
	var out []byte
	bol := true
	for i := 0; i < len(msg); i++ {
		if bol && msg[i] == '.' {
			out = append(out, '.')
		}
		out = append(out, msg[i])
		bol = msg[i] == '\n' && i > 0 && msg[i-1] == '\r'
	}
	return out
}

// ---------------------------------------------------------------------------

// Reply is one server reply as found on the wire.
type Reply struct {
	Code   int
	Lines  []string // text of each line after the code and separator
	Start  int      // offset of the first octet in the stream
	End    int      // offset one past the last octet
	Syntax []string // RFC 5321 section 4.2 breaches (empty = well-formed)
}

func (r Reply) Last() string {
	if len(r.Lines) == 0 {
		return ""
	}
	return r.Lines[len(r.Lines)-1]
}

func (r Reply) String() string {
	return fmt.Sprintf("%d %s", r.Code, strings.Join(r.Lines, " | "))
}

// parseReplies splits a server->client octet stream into replies and checks
// each against RFC 5321 section 4.2:
//
//	Reply-line = *( Reply-code "-" [ textstring ] CRLF ) Reply-code [ SP textstring ] CRLF
//	Reply-code = %x32-35 %x30-35 %x30-39
//	textstring = 1*(%d09 / %d32-126)
//
// Octets >= 0x80 and line length are deliberately not judged. The splitter is
// lenient (it resynchronises on LF) so that attribution works even when a
// reply is malformed; every breach is recorded in Reply.Syntax. rest is an
// incomplete trailing reply, if any.
func parseReplies(stream []byte) (replies []Reply, rest []byte) {
	pos := 0
	var cur *Reply
	for pos < len(stream) {
		i := bytes.IndexByte(stream[pos:], '\n')
		if i < 0 {
			break
		}
		line := stream[pos : pos+i]
		lineStart := pos
		pos += i + 1
		var probs []string
		if len(line) == 0 || line[len(line)-1] != '\r' {
			probs = append(probs, "line ends in bare LF")
		} else {
			line = line[:len(line)-1]
		}
		for _, c := range line {
			if c == '\r' {
				probs = append(probs, "bare CR inside reply line")
				break
			}
		}
		for _, c := range line {
			if (c < 0x20 && c != '\t' && c != '\r') || c == 0x7f {
				probs = append(probs, fmt.Sprintf("control octet 0x%02x inside reply line", c))
				break
			}
		}
		code := 0
		sep := byte(' ')
		text := ""
		if len(line) < 3 || !isDigits(line[:3]) {
			probs = append(probs, fmt.Sprintf("line does not start with a three-digit code: %q", clip(string(line), 40)))
		} else {
			code, _ = strconv.Atoi(string(line[:3]))
			if line[0] < '2' || line[0] > '5' || line[1] > '5' {
				probs = append(probs, fmt.Sprintf("reply code %d outside the RFC 5321 range", code))
			}
			if len(line) > 3 {
				sep = line[3]
				text = string(line[4:])
				if sep != ' ' && sep != '-' {
					probs = append(probs, fmt.Sprintf("separator %q after reply code", sep))
					sep = ' '
					text = string(line[3:])
				} else if sep == ' ' && text == "" {
					probs = append(probs, "SP after reply code without text")
				}
			}
		}
		if cur == nil {
			cur = &Reply{Code: code, Start: lineStart}
		} else if code != cur.Code {
			probs = append(probs, fmt.Sprintf("continuation line carries code %d, first line %d", code, cur.Code))
		}
		cur.Lines = append(cur.Lines, text)
		cur.Syntax = append(cur.Syntax, probs...)
		if sep != '-' {
			cur.End = pos
			replies = append(replies, *cur)
			cur = nil
		}
	}
	if cur != nil {
		return replies, stream[cur.Start:]
	}
	return replies, stream[pos:]
}

func isDigits(b []byte) bool {
	for _, c := range b {
		if c < '0' || c > '9' {
			return false
		}
	}
	return len(b) > 0
}

func clip(s string, n int) string {
	if len(s) > n {
		return s[:n] + "..."
	}
	return s
}

// enhancedClass returns the class digit of the enhanced status code at the
// start of text (RFC 2034/3463: class "." subject "." detail SP), or 0.
func enhancedClass(text string) int {
	// class
	if len(text) < 5 || text[0] < '2' || text[0] > '5' || text[1] != '.' {
		return 0
	}
	i := 2
	j := i
	for j < len(text) && j-i < 3 && text[j] >= '0' && text[j] <= '9' {
		j++
	}
	if j == i || j >= len(text) || text[j] != '.' {
		return 0
	}
	i = j + 1
	j = i
	for j < len(text) && j-i < 3 && text[j] >= '0' && text[j] <= '9' {
		j++
	}
	if j == i {
		return 0
	}
	if j < len(text) && text[j] != ' ' {
		return 0
	}
	return int(text[0] - '0')
}

// countReplies is the lenient counter the raw driver uses to know how many
// complete replies have arrived.
func countReplies(stream []byte) int {
	n := 0
	pos := 0
	for pos < len(stream) {
		i := bytes.IndexByte(stream[pos:], '\n')
		if i < 0 {
			break
		}
		line := stream[pos : pos+i]
		pos += i + 1
		if len(line) >= 4 && line[3] == '-' {
			continue
		}
		n++
	}
	return n
}

func lastReplyCode(stream []byte) int {
	rs, _ := parseReplies(stream)
	if len(rs) == 0 {
		return 0
	}
	return rs[len(rs)-1].Code
}
