package sim

import (
	"bytes"
	"testing"
)

func TestWorker(t *testing.T) { WorkerMain(t) }

// Cross-check of the two reference functions: unstuff(dotStuff(m)+".CRLF") = m
// for every CRLF-terminated m.
func TestModelUnstuffInverse(t *testing.T) {
	for idx := 0; idx < c01ClassBodies; idx++ {
		m := classBody(idx)
		if len(m) > 0 && !bytes.HasSuffix(m, []byte("\r\n")) {
			m = append(m, '\r', '\n')
		}
		stream := append(dotStuff(m), []byte(".\r\n")...)
		got, consumed, complete := unstuff(stream)
		if !complete || consumed != len(stream) || !bytes.Equal(got, m) {
			t.Fatalf("m=%q stream=%q got=%q consumed=%d complete=%v", m, stream, got, consumed, complete)
		}
	}
}

func TestModelReplyParser(t *testing.T) {
	rs, rest := parseReplies([]byte("220 hi\r\n250-a\r\n250 2.0.0 b\r\n354 go\r\n25"))
	if len(rs) != 3 || string(rest) != "25" || rs[1].Code != 250 || len(rs[1].Lines) != 2 {
		t.Fatalf("%v %q", rs, rest)
	}
	for _, r := range rs {
		if len(r.Syntax) != 0 {
			t.Fatalf("unexpected syntax problems %v", r.Syntax)
		}
	}
	rs, _ = parseReplies([]byte("250 a\rb\r\n250 x\n"))
	if len(rs) != 2 || len(rs[0].Syntax) == 0 || len(rs[1].Syntax) == 0 {
		t.Fatalf("%v", rs)
	}
	if enhancedClass("2.0.0 ok") != 2 || enhancedClass("5.7.10 x") != 5 || enhancedClass("hello") != 0 || enhancedClass("2.0 x") != 0 {
		t.Fatal("enhancedClass")
	}
}
