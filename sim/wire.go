package sim

import (
	"bytes"
	"strconv"
	"strings"
)

// Unit is one framing unit of the client's octet stream: a command line, a
// DATA body, a BDAT payload or an AUTH continuation line, with the replies
// that answer it.
type Unit struct {
	Kind     string // "cmd", "body", "payload", "authresp"
	Verb     string
	Line     string
	Arg      string
	Start    int
	End      int
	Replies  []Reply
	Expect   int    // replies this unit calls for
	Msg      []byte // body: reference unstuffed message; payload: the octets
	Complete bool   // the unit's octets were all present in the stream
	Last     bool   // BDAT ... LAST
	Size     int    // BDAT size
	HasSize  bool
	Accepted int // recipients accepted in the transaction when this unit started
}

// Walk is the result of framing a client stream against the replies observed.
type Walk struct {
	Greeting  *Reply
	Units     []Unit
	Surplus   []Reply // replies that no unit calls for
	Short     bool    // replies ran out before the units did
	Remaining int     // client octets not framed (incomplete line or payload at the end)
}

// walkWire is the reference model of SMTP framing. It walks the client's
// stream and the server's replies in tandem: how many replies a unit calls
// for, and where the next command starts, is computed from the replies
// themselves (354 => a body follows and its final reply or replies come after
// the end marker; 334 => one continuation line follows; a BDAT with a parseable
// size is followed by exactly that many payload octets, accepted or refused;
// in LMTP the final response is one reply per accepted recipient).
func walkWire(sent []byte, replies []Reply, lmtp bool) *Walk {
	w := &Walk{}
	ri := 0
	next := func() *Reply {
		if ri < len(replies) {
			r := &replies[ri]
			ri++
			return r
		}
		return nil
	}
	w.Greeting = next()
	pos := 0
	accepted := 0
	// A second MAIL accepted inside a transaction is left open by RFC-level
	// statements (the server may or may not keep the recipients): from then on
	// until the transaction ends the size of an LMTP final response is read off
	// the replies (consecutive replies naming a recipient), bounded by the
	// recipients accepted since the last transaction end.
	sinceEnd := 0
	mailOpen := false
	fuzzy := false
	finals := func() int {
		n := accepted
		if fuzzy {
			n = 0
			for ri+n < len(replies) && n < sinceEnd && namesRecipient(replies[ri+n]) {
				n++
			}
		}
		if n < 1 {
			n = 1
		}
		return n
	}
	endTxn := func() {
		accepted, sinceEnd, mailOpen, fuzzy = 0, 0, false, false
	}
	for pos < len(sent) {
		j := bytes.IndexByte(sent[pos:], '\n')
		if j < 0 {
			w.Remaining = len(sent) - pos
			break
		}
		end := pos + j + 1
		raw := strings.TrimRight(string(sent[pos:end]), "\r\n")
		u := Unit{Kind: "cmd", Line: raw, Start: pos, End: end, Expect: 1, Complete: true, Accepted: accepted}
		up := strings.ToUpper(raw)
		switch {
		case strings.HasPrefix(up, "STARTTLS"):
			u.Verb = "STARTTLS"
		case len(up) >= 4:
			u.Verb = up[:4]
			if len(raw) > 5 {
				u.Arg = strings.TrimSpace(raw[5:])
			}
		default:
			u.Verb = up
		}
		r := next()
		if r == nil {
			w.Short = true
			w.Units = append(w.Units, u)
			pos = end
			// the remaining units get no replies; still frame them for the record
			continue
		}
		u.Replies = append(u.Replies, *r)
		pos = end
		wellFormed := len(raw) == 4 || (len(raw) > 5 && raw[4] == ' ') || u.Verb == "STARTTLS"
		if !wellFormed {
			u.Verb = "?" + u.Verb
		}
		switch {
		case u.Verb == "MAIL" && r.Code == 250:
			if mailOpen {
				fuzzy = true
			}
			mailOpen = true
			accepted = 0
		case u.Verb == "RCPT" && r.Code/100 == 2:
			accepted++
			sinceEnd++
		case (u.Verb == "RSET" || u.Verb == "EHLO" || u.Verb == "HELO" || u.Verb == "LHLO") && r.Code == 250:
			endTxn()
		}
		if u.Verb == "BDAT" {
			f := strings.Fields(u.Arg)
			if len(f) >= 1 && len(f) <= 2 {
				if n, err := strconv.ParseUint(f[0], 10, 32); err == nil {
					u.Size, u.HasSize = int(n), true
					u.Last = len(f) == 2 && strings.EqualFold(f[1], "LAST")
				}
			}
		}
		w.Units = append(w.Units, u)
		cur := &w.Units[len(w.Units)-1]
		switch {
		case u.Verb == "DATA" && r.Code == 354:
			msg, consumed, complete := unstuff(sent[pos:])
			b := Unit{Kind: "body", Start: pos, End: pos + consumed, Msg: msg, Complete: complete, Expect: 1, Accepted: accepted}
			if lmtp && complete {
				b.Expect = finals()
			}
			pos += consumed
			if complete {
				for k := 0; k < b.Expect; k++ {
					fr := next()
					if fr == nil {
						w.Short = true
						break
					}
					b.Replies = append(b.Replies, *fr)
				}
			} else {
				w.Remaining = 0
			}
			w.Units = append(w.Units, b)
			endTxn()
			if !complete {
				return w.finish(replies, ri)
			}
		case u.Verb == "BDAT" && u.HasSize:
			n := u.Size
			complete := pos+n <= len(sent)
			if !complete {
				n = len(sent) - pos
			}
			if u.Size > 0 {
				p := Unit{Kind: "payload", Start: pos, End: pos + n, Msg: sent[pos : pos+n], Complete: complete, Expect: 0, Last: u.Last}
				w.Units = append(w.Units, p)
			}
			pos += n
			if !complete {
				return w.finish(replies, ri)
			}
			// LMTP: the final response to BDAT LAST is one reply per recipient
			if lmtp && u.Last && namesRecipient(*r) {
				ri-- // let finals() look at the first final reply too
				cur.Expect = finals()
				ri++
				for k := 1; k < cur.Expect; k++ {
					fr := next()
					if fr == nil {
						w.Short = true
						break
					}
					cur.Replies = append(cur.Replies, *fr)
				}
			}
			if (u.Last && r.Code/100 == 2) || (r.Code/100 != 2 && r.Code != 501 && r.Code != 502) {
				endTxn() // the transaction ended: final response, or a failed chunk
			}
		case u.Verb == "AUTH" && r.Code == 334:
			code := 334
			for code == 334 {
				j := bytes.IndexByte(sent[pos:], '\n')
				if j < 0 {
					w.Remaining = len(sent) - pos
					return w.finish(replies, ri)
				}
				e := pos + j + 1
				a := Unit{Kind: "authresp", Line: strings.TrimRight(string(sent[pos:e]), "\r\n"), Start: pos, End: e, Expect: 1, Complete: true}
				pos = e
				fr := next()
				if fr == nil {
					w.Short = true
					w.Units = append(w.Units, a)
					return w.finish(replies, ri)
				}
				a.Replies = append(a.Replies, *fr)
				w.Units = append(w.Units, a)
				code = fr.Code
			}
		case u.Verb == "STARTTLS" && r.Code == 220:
			w.Remaining = len(sent) - pos
			return w.finish(replies, ri)
		case u.Verb == "QUIT" && r.Code == 221:
			w.Remaining = len(sent) - pos
			return w.finish(replies, ri)
		}
	}
	return w.finish(replies, ri)
}

func (w *Walk) finish(replies []Reply, ri int) *Walk {
	if ri < len(replies) {
		w.Surplus = append(w.Surplus, replies[ri:]...)
	}
	return w
}

// namesRecipient reports whether the reply text, after an optional enhanced
// status code, starts with "<".
func namesRecipient(r Reply) bool {
	text := r.Last()
	if enhancedClass(text) != 0 {
		if j := strings.IndexByte(text, ' '); j >= 0 {
			text = text[j+1:]
		}
	}
	return strings.HasPrefix(text, "<")
}
