package sim

import (
	"fmt"
	"strings"
	"time"
)

// C19 - hostile input is bounded: over-long lines and error floods end the
// connection; nothing crashes or panics.

type c19X struct {
	Kind       int // 0 boundary line, 1 endless line, 2 short strings, 3 seeded binary, 4 error threshold, 5 argument fragments, 6 refused greeting
	Limit      int
	Len        int // probe line length, CRLF included
	Form       int // 0 NOOP padded, 1 MAIL padded with spaces
	Pos        int
	Pre        int // replies before the probe
	MailOK     bool
	LineStart  int // client stream offset of the hostile line
	Lines      []string
	ErrAt      int // index in Lines of the fourth counted error, -1 if fewer
	Judged     bool
	WriteFault bool // error threshold: the reply writes fail from some point on (the peer does not read)
	TLSAt      int  // error threshold: STARTTLS (and the handshake) comes before line TLSAt, -1 = never
	ErrsPreTLS int  // malformed lines before it
}

var c19Pos = []string{"before-helo", "greeted", "after-mail", "after-bdat-chunk", "after-transaction", "inside-auth-exchange", "after-chunk-refused-by-backend"}
var c19Kinds = []string{"boundary-line", "endless-line", "short-strings", "binary", "error-threshold", "argument-fragments", "refused-greeting"}

// Fragments of MAIL/RCPT arguments: well-formed, cut short, empty, with escapes that
// end early or name nothing - every extension the server can be configured with.
var c19Paths = []string{"<ok-f@a.example>", "<>", "<ok-f@a.example", "ok-f@a.example", "<@a.example,@b.example:ok-f@c.example>", "<\"quoted f\"@a.example>", "<\"unterminated@a.example>", "<ok f@a.example>", "<ok-f@[192.0.2.1]>", "<ok-f@[IPv6:2001:db8::1]>", "<ok-f@[>", "<\"\\\"\"@a.example>", "<", "", "<<ok-f@a.example>>", "<ok-f@a.example>>", "<ok-f@>", "<@a.example>", "<ok-f@a.example\t>", "<\xc3\xa9@a.example>", "<ok-f@\xc3\xa9.example>"}
var c19MailParams = []string{"SIZE=100", "SIZE=", "SIZE=abc", "SIZE=-1", "SIZE=18446744073709551616", "BODY=7BIT", "BODY=8BITMIME", "BODY=BINARYMIME", "BODY=", "BODY=x", "SMTPUTF8", "SMTPUTF8=1", "REQUIRETLS", "RET=FULL", "RET=HDRS", "RET=", "RET=x", "ENVID=abc", "ENVID=a+2Bb", "ENVID=a+", "ENVID=a+2", "ENVID=a+GG", "ENVID=", "AUTH=<>", "AUTH=a+40b.example", "AUTH=+", "AUTH=", "AUTH=<", "=", "=x", "X", "X=", "NOTIFY=NEVER", "size=100", "Size=100 SIZE=200"}
var c19RcptParams = []string{"NOTIFY=NEVER", "NOTIFY=SUCCESS,FAILURE,DELAY", "NOTIFY=", "NOTIFY=NEVER,SUCCESS", "NOTIFY=x", "NOTIFY=,", "NOTIFY", "ORCPT=rfc822;a@b.example", "ORCPT=rfc822;a+40b.example", "ORCPT=rfc822;a+", "ORCPT=rfc822;a+4", "ORCPT=rfc822;a+GG", "ORCPT=rfc822;", "ORCPT=;a", "ORCPT=rfc822", "ORCPT=", "ORCPT=utf-8;a@b.example", "ORCPT=utf-8;caf\\x{E9}@b.example", "ORCPT=utf-8;caf\\x{e9}@b.example", "ORCPT=utf-8;u\\x{@b.example", "ORCPT=utf-8;u\\x{", "ORCPT=utf-8;u\\x{}", "ORCPT=utf-8;u\\x{41", "ORCPT=utf-8;u\\x{110000}", "ORCPT=utf-8;u\\x{FFFFFFFFFFFFFFFFFF}", "ORCPT=utf-8;u\\x{D800}", "ORCPT=utf-8;u\\x", "ORCPT=utf-8;u\\", "ORCPT=utf-8;", "ORCPT=UTF-8;x", "ORCPT=utf-8;a+3Db", "ORCPT=utf-8;a=b", "ORCPT=x400;whatever", "RRVS=2014-04-03T23:01:00Z", "RRVS=2014-04-03T23:01:00Z;C", "RRVS=2014-04-03T23:01:00Z;R", "RRVS=2014-04-03T23:01:00Z;", "RRVS=", "RRVS=x", "RRVS=;", "RRVS=9999-99-99T99:99:99Z", "X=", "=", "SIZE=1"}

// c19Prefix builds the conversation prefix for a position and returns the
// number of replies it produces.
func c19Prefix(t *Tape, sc *Scenario, pos int, steps *[]Step, cp *ConnBackendPlan) int {
	n := 1
	add := func(s Step) {
		s.Wait = 1
		*steps = append(*steps, s)
		n++
	}
	if pos >= 1 {
		add(Step{Kind: kHelo, Data: heloLine(sc.Srv)})
	}
	switch pos {
	case 2:
		add(Step{Kind: kMail, Data: line("MAIL FROM:<ok-s@a.example>")})
	case 3, 6:
		add(Step{Kind: kMail, Data: line("MAIL FROM:<ok-s@a.example>")})
		add(Step{Kind: kRcpt, Data: line("RCPT TO:<ok-r@b.example>")})
		k := t.Intn(3) * 1500
		if pos == 6 {
			// the backend refuses the message without reading it: the chunk fails
			k = 1 + t.Intn(3000)
			cp.Data = append(cp.Data, DataPlan{ReadMode: readK, ReadK: 0, V: Verdict{Kind: vSMTP, Code: 554, Enh: [3]int{5, 6, 0}, Msg: "refused early"}})
		} else {
			cp.Data = append(cp.Data, DataPlan{})
		}
		// pipelined in half of the runs: the hostile line then follows the chunk in the same segment
		glued := t.Bool()
		w := 1
		if glued {
			w = 0
		}
		*steps = append(*steps, Step{Kind: kBdat, Data: line("BDAT %d", k), Glue: k > 0})
		if k > 0 {
			*steps = append(*steps, Step{Kind: kPayload, Data: []byte(strings.Repeat("Z", k)), Wait: w, Glue: glued})
		} else {
			(*steps)[len(*steps)-1].Wait = w
			(*steps)[len(*steps)-1].Glue = glued
		}
		n++
	case 5:
		// an AUTH exchange is waiting for the client's response (334 sent)
		sc.Srv.InsecureAuth = true
		sc.BE.Flavor = beAuth
		cp.Auth = &AuthPlan{Mechs: []string{"SIMPLE"}, Steps: []SaslStep{{Challenge: []byte("challenge")}, {Done: true}}}
		add(Step{Kind: kAuth, Data: line("AUTH SIMPLE")})
	case 4:
		add(Step{Kind: kMail, Data: line("MAIL FROM:<ok-s@a.example>")})
		add(Step{Kind: kRcpt, Data: line("RCPT TO:<ok-r@b.example>")})
		add(Step{Kind: kData, Data: []byte("DATA\r\n")})
		*steps = append(*steps, Step{Kind: kBody, Data: []byte("hello\r\n.\r\n"), Need: 354, Wait: -1})
		n++
		cp.Data = append(cp.Data, DataPlan{})
	}
	return n
}

func streamLen(steps []Step) int {
	n := 0
	for _, s := range steps {
		n += len(s.Data)
	}
	return n
}

func genC19(t *Tape, tier string) *Scenario {
	sc := &Scenario{Prop: "C19"}
	sc.Srv = drawCfg(t, cfgOpts{})
	sc.Srv.MaxRcpt = 0
	sc.Srv.LMTP = false
	x := &c19X{ErrAt: -1, TLSAt: -1}
	sc.X = x
	x.Kind = t.Named("c19kind", 7)
	var cp ConnBackendPlan
	steps := []Step{{Kind: kGreetWait, Wait: 1}}
	lock := t.Bool()
	w := func() int {
		if lock {
			return 1
		}
		return 0
	}
	switch x.Kind {
	case 0:
		sc.Srv.MaxLine = []int{64, 200, 2000}[t.Named("c19limit", 3)]
		x.Limit = sc.Srv.MaxLine
		d := []int{-2, -1, 0, 1, 2, 3, 50, x.Limit}[t.Named("c19delta", 8)]
		x.Len = x.Limit + d
		x.Pos = t.Named("c19pos", 7)
		x.Form = t.Intn(2)
		if x.Form == 1 && x.Pos != 1 && x.Pos != 4 {
			x.Form = 0
		}
		if x.Pos == 5 {
			x.Form = 2 // the line is the base64 response to a 334 challenge
		}
		x.Pre = c19Prefix(t, sc, x.Pos, &steps, &cp)
		var probe string
		if x.Form == 2 {
			probe = strings.Repeat("QUJD", x.Len/4+1)[:x.Len-2] + "\r\n"
		} else if x.Form == 0 {
			probe = "NOOP " + strings.Repeat("x", x.Len-7) + "\r\n"
		} else {
			base := "MAIL FROM:<ok-long@a.example>"
			probe = base + strings.Repeat(" ", x.Len-len(base)-2) + "\r\n"
			x.MailOK = true
		}
		x.LineStart = streamLen(steps)
		// segmentation: whole, crossing the limit inside one segment, or across segments
		var segs []int
		switch t.Pick(2, 2, 2, 1) {
		case 1:
			segs = []int{1 + t.Intn(minInt(len(probe)-1, x.Limit)), len(probe)}
		case 2:
			k := 1 + t.Intn(5)
			for i := 0; i < k; i++ {
				segs = append(segs, 1+t.Intn(maxInt(1, len(probe)/2)))
			}
		case 3:
			segs = []int{1}
		}
		steps = append(steps, Step{Kind: kGarbage, Data: []byte(probe), Segs: segs, Gaps: drawGaps(t), Wait: w(), Glue: !lock && t.Bool()})
		steps = append(steps, Step{Kind: kMarker, Data: []byte("NOOP\r\n"), Wait: w()}, Step{Kind: kQuit, Data: []byte("QUIT\r\n"), Wait: w()})
		x.Judged = d != 1
	case 1:
		sc.Srv.MaxLine = []int{64, 200, 2000}[t.Named("c19limit", 3)]
		x.Limit = sc.Srv.MaxLine
		x.Pos = []int{0, 1, 3, 4, 6}[t.Named("c19pos", 5)]
		x.Pre = c19Prefix(t, sc, x.Pos, &steps, &cp)
		x.LineStart = streamLen(steps)
		total := 70000
		seg := []int{1000, 4096, 8000, 333}[t.Intn(4)]
		pfx := []string{"", "NOOP ", "MAIL FROM:<ok-long@a.example> "}[t.Intn(3)]
		// what the line is made of: letters, or letters with a CR (or NUL, SP, HT) at intervals
		// shorter than the limit - anything but LF, which alone ends a line
		filler := strings.Repeat("A", total)
		if k := t.Intn(5); k > 0 {
			unit := strings.Repeat("a", []int{7, 49, 63}[t.Intn(3)]) + []string{"", "\r", "\x00", " ", "\t"}[k]
			filler = strings.Repeat(unit, total/len(unit)+1)[:total]
			x.Form = k
		}
		steps = append(steps, Step{Kind: kGarbage, Data: []byte(pfx + filler), Segs: []int{seg}, Gaps: []Dur{t.SmallDur()}})
		x.Judged = true
	case 2:
		alpha := []byte{0, '\r', '\n', ' ', 'A', ':', '<'}
		idx := t.Named("c19str", 2800)
		n := 1
		cnt := 7
		for idx >= cnt {
			idx -= cnt
			n++
			cnt *= 7
		}
		s := make([]byte, n)
		for i := n - 1; i >= 0; i-- {
			s[i] = alpha[idx%7]
			idx /= 7
		}
		x.Pos = t.Named("c19pos", 3)
		x.Pre = c19Prefix(t, sc, x.Pos, &steps, &cp)
		x.Lines = []string{string(s)}
		reps := 1 + t.Intn(4)
		for r := 0; r < reps; r++ {
			steps = append(steps, Step{Kind: kGarbage, Data: append(append([]byte{}, s...), '\r', '\n'), Segs: drawSegs(t, n+2, nil), Wait: 0})
		}
		steps = append(steps, Step{Kind: kMarker, Data: []byte("NOOP\r\n")}, Step{Kind: kQuit, Data: []byte("QUIT\r\n")})
	case 3:
		x.Pos = t.Intn(5)
		x.Pre = c19Prefix(t, sc, x.Pos, &steps, &cp)
		n := 1 + t.Intn(300)
		b := make([]byte, n)
		for i := range b {
			switch t.Pick(6, 1, 1, 1) {
			case 0:
				b[i] = t.Byte()
			case 1:
				b[i] = '\n'
			case 2:
				b[i] = ' '
			default:
				b[i] = "MAILRCPTDATABDATAUTHSTARTTLS<>:@"[t.Intn(32)]
			}
		}
		steps = append(steps, Step{Kind: kGarbage, Data: b, Segs: drawSegs(t, n, nil)}, Step{Kind: kQuit, Data: []byte("\r\nQUIT\r\n")})
	case 5:
		// every extension on: each parameter reaches its parser
		sc.Srv.UTF8, sc.Srv.BinaryMIME, sc.Srv.DSN, sc.Srv.RRVS = true, true, true, true
		if sc.Srv.MaxLine != 0 && sc.Srv.MaxLine < 2000 {
			sc.Srv.MaxLine = 2000
		}
		x.Pos = 1
		x.Pre = c19Prefix(t, sc, x.Pos, &steps, &cp)
		frag := t.Named("c19frag", len(c19Paths)+len(c19MailParams)+len(c19RcptParams))
		mailLine, rcptLine := "MAIL FROM:<ok-s@a.example>", "RCPT TO:<ok-r@b.example>"
		switch {
		case !t.HasOver("c19frag"):
			// drawn: a path and up to three parameters for each command
			// (the server walks the parameters in the order of a Go map: with two malformed
			// ones it is a matter of chance which of them the reply names, so a line gets at
			// most one fragment from the list, next to parameters that are certainly fine)
			fineMail := []string{"SIZE=100", "BODY=8BITMIME", "SMTPUTF8", "RET=FULL", "ENVID=abc", "AUTH=<>"}
			fineRcpt := []string{"NOTIFY=NEVER", "ORCPT=rfc822;a@b.example", "RRVS=2014-04-03T23:01:00Z"}
			build := func(verb, plain string, fine, frags []string) string {
				l := verb + plain
				odd := ""
				if t.Bool() {
					odd = frags[t.Intn(len(frags))] // one fragment from the list, with the plain path
				} else {
					l = verb + c19Paths[t.Intn(len(c19Paths))] // or an odd path, with nothing else odd
				}
				for i, n := 0, t.Intn(3); i < n; i++ {
					l += " " + fine[t.Intn(len(fine))]
				}
				if odd != "" {
					l += " " + odd
				}
				return l
			}
			mailLine = build("MAIL FROM:", "<ok-s@a.example>", fineMail, c19MailParams)
			rcptLine = build("RCPT TO:", "<ok-r@b.example>", fineRcpt, c19RcptParams)
		case frag < len(c19Paths):
			if t.Bool() {
				mailLine = "MAIL FROM:" + c19Paths[frag]
			} else {
				rcptLine = "RCPT TO:" + c19Paths[frag]
			}
		case frag < len(c19Paths)+len(c19MailParams):
			mailLine += " " + c19MailParams[frag-len(c19Paths)]
		default:
			rcptLine += " " + c19RcptParams[frag-len(c19Paths)-len(c19MailParams)]
		}
		x.Lines = []string{mailLine, rcptLine}
		steps = append(steps, Step{Kind: kGarbage, Data: []byte(mailLine + "\r\n"), Wait: w()},
			Step{Kind: kGarbage, Data: []byte("MAIL FROM:<ok-s2@a.example>\r\n"), Wait: w()}, // in case the first was refused
			Step{Kind: kGarbage, Data: []byte(rcptLine + "\r\n"), Wait: w()},
			Step{Kind: kMarker, Data: []byte("NOOP\r\n"), Wait: w()}, Step{Kind: kQuit, Data: []byte("QUIT\r\n"), Wait: w()})
		x.Judged = true
	case 6:
		// the backend refuses the session (an error, an SMTP error, a panic) for the first one
		// or two greetings, and the client goes on regardless: commands of every kind against a
		// connection that has a greeting name on the wire but no session
		nfail := 1 + t.Intn(2)
		for i := 0; i < nfail; i++ {
			v := Verdict{Kind: vSMTP, Code: 451, Enh: [3]int{4, 7, 1}, Msg: "try again later"}
			switch t.Intn(4) {
			case 0:
				v = Verdict{Kind: vPlain, Msg: "no session for you"}
			case 1:
				if i == nfail-1 {
					v = Verdict{Kind: vPanic, Msg: "in NewSession"} // ends the connection
				}
			}
			cp.NewSession = append(cp.NewSession, v)
		}
		sc.Srv.InsecureAuth = true
		cmds := []string{"MAIL FROM:<ok-s@a.example>", "RCPT TO:<ok-r@b.example>", "DATA", "BDAT 5\r\nhello", "BDAT 0 LAST", "RSET", "NOOP", "VRFY someone", "AUTH PLAIN AHVzZXIAcGFzcw==", "AUTH PLAIN", "STARTTLS", "EHLO again.example", "HELO again.example", "MAIL FROM:<ok-s2@a.example> SIZE=10"}
		steps = append(steps, Step{Kind: kHelo, Data: heloLine(sc.Srv), Wait: w()})
		n := 1 + t.Intn(6)
		for i := 0; i < n; i++ {
			l := cmds[t.Intn(len(cmds))]
			x.Lines = append(x.Lines, l)
			steps = append(steps, Step{Kind: kGarbage, Data: []byte(l + "\r\n"), Wait: w(), Glue: !lock && t.Bool()})
		}
		steps = append(steps, Step{Kind: kQuit, Data: []byte("QUIT\r\n"), Wait: w()})
		cp.Data = append(cp.Data, DataPlan{}, DataPlan{})
		x.Judged = true
	case 4:
		x.Pos = 1 + t.Intn(2)
		x.Pre = c19Prefix(t, sc, x.Pos, &steps, &cp)
		valid := []string{"NOOP", "RSET", "VRFY someone", "EHLO again.example", "NOOP with arguments"}
		invalid := []string{"XYZZY", "FROB nicate", "AB", "NOOPX", "", "MAILX FROM:<a@b>", "QUI", "HELLO there", "QUITE"}
		n := 1 + t.Intn(9)
		errs := 0
		if t.Chance(1, 4) {
			// the errors are spread over both sides of a STARTTLS: the count belongs to the
			// connection, not to the epoch
			sc.Srv.TLS = tlsStart
			x.TLSAt = t.Intn(n + 1)
			lock = true
		}
		for i := 0; i < n; i++ {
			if i == x.TLSAt {
				x.ErrsPreTLS = errs
				steps = append(steps, Step{Kind: kStartTLS, Data: []byte("STARTTLS\r\n"), Wait: 1})
			}
			var l string
			if t.Chance(3, 5) {
				l = invalid[t.Intn(len(invalid))]
				errs++
				if errs == 4 && x.ErrAt < 0 {
					x.ErrAt = i
				}
			} else {
				l = valid[t.Intn(len(valid))]
			}
			x.Lines = append(x.Lines, l)
			steps = append(steps, Step{Kind: kGarbage, Data: []byte(l + "\r\n"), Wait: w(), Glue: !lock && t.Bool()})
		}
		if x.TLSAt == n {
			x.ErrsPreTLS = errs
			steps = append(steps, Step{Kind: kStartTLS, Data: []byte("STARTTLS\r\n"), Wait: 1})
		}
		steps = append(steps, Step{Kind: kQuit, Data: []byte("QUIT\r\n"), Wait: w()})
		x.Judged = true
	}
	cs := ConnScript{Lat: drawLat(t), SrvCaps: drawCaps(t), Steps: steps}
	cs.defaults()
	if x.Kind == 4 && x.TLSAt < 0 && t.Chance(1, 4) {
		// the flood comes from a peer that does not take the replies: from some reply on
		// the writes fail, or one blocks until WriteTimeout and the rest fail
		x.WriteFault = true
		// a sentinel command behind the flood shows whether the server went on executing
		q := cs.Steps[len(cs.Steps)-1]
		cs.Steps = append(cs.Steps[:len(cs.Steps)-1], Step{Kind: kMarker, Data: line("MAIL FROM:<ok-after-flood@a.example>"), Wait: q.Wait, Pre: time.Second}, q)
		if t.Bool() {
			cs.SrvFaults.FailWriteAt = 2 + t.Intn(4)
		} else {
			cs.SrvFaults.BlockWriteAt = 2 + t.Intn(4)
			sc.Srv.WriteTO = 10 * time.Minute
			cs.NoClose = true
		}
		cs.AwaitTO = 5 * time.Second
	}
	sc.Conns = []ConnScript{cs}
	sc.BE.Conns = []ConnBackendPlan{cp}
	sc.Strata = []string{c19Kinds[x.Kind]}
	return sc
}

func checkC19(sc *Scenario, h *History) []Violation {
	var out []Violation
	x := sc.X.(*c19X)
	ch := h.Conns[0]
	wit := fmt.Sprintf("kind=%s limit=%d len=%d form=%d pos=%s", c19Kinds[x.Kind], x.Limit, x.Len, x.Form, c19Pos[x.Pos])
	if x.Kind == 2 || x.Kind == 4 || x.Kind == 5 || x.Kind == 6 {
		wit += fmt.Sprintf(" lines=%q", x.Lines)
		if x.TLSAt >= 0 {
			wit += fmt.Sprintf(" starttls-before-line=%d", x.TLSAt)
		}
	}
	// no recovered panic, no deadlock, nobody left behind
	for _, l := range h.Logs {
		if strings.HasPrefix(l, "panic serving") && !strings.Contains(l, "simulated backend panic") {
			first := l
			if i := strings.Index(l, "\n"); i > 0 {
				first = l[:i]
			}
			out = append(out, Violation{Rule: "C19.recovered-panic", Detail: "input made the server panic (recovered): " + first + "\n" + clip(l, 1500), Witness: wit})
			break
		}
	}
	if h.BubblePanic != "" && h.Leaked == 0 {
		out = append(out, Violation{Rule: "C19.deadlock", Detail: h.BubblePanic, Witness: wit})
	}
	if h.Leaked > 0 {
		out = append(out, Violation{Rule: "C19.goroutine-leak", Detail: clip(h.LeakDump, 2000), Witness: wit})
	}
	wire := ch.S2C.Buf
	if x.TLSAt >= 0 {
		wire = ch.Recv // what the lock-step client read, through TLS from the handshake on
	}
	replies, _ := parseReplies(wire)
	var codes []string
	for _, r := range replies {
		codes = append(codes, fmt.Sprint(r.Code))
	}
	closedByServer := ch.SrvCloseSeq >= 0 && (ch.S2C.ClosedAt != 0)
	switch x.Kind {
	case 0:
		if !x.Judged {
			break
		}
		if x.Len <= x.Limit {
			// never refused for its length: probe answered normally, marker 250, QUIT 221
			want := x.Pre + 3
			if len(replies) != want {
				out = append(out, Violation{Rule: "C19.short-line-refused", Detail: fmt.Sprintf("a line of %d octets (limit %d): expected %d replies, got %s", x.Len, x.Limit, want, strings.Join(codes, " ")), Witness: wit})
				break
			}
			pr := replies[x.Pre]
			okProbe := pr.Code == 250
			if x.Form == 1 && x.Pos != 1 && x.Pos != 4 {
				okProbe = pr.Code/100 == 5
			}
			if x.Form == 2 {
				// the response is handed to the exchange: success or an AUTH failure, never the too-long 500
				okProbe = pr.Code == 235 || pr.Code == 454 || pr.Code == 535 || pr.Code == 501
			}
			if !okProbe || replies[x.Pre+1].Code != 250 || replies[x.Pre+2].Code != 221 {
				out = append(out, Violation{Rule: "C19.short-line-refused", Detail: fmt.Sprintf("a line of %d octets (limit %d) was not handled normally: %s", x.Len, x.Limit, strings.Join(codes[x.Pre:], " ")), Witness: wit})
			}
		} else {
			// refused with 500, connection closed, content never reaches the backend
			if len(replies) != x.Pre+1 || replies[len(replies)-1].Code != 500 {
				out = append(out, Violation{Rule: "C19.long-line-accepted", Detail: fmt.Sprintf("a line of %d octets (limit %d): expected exactly one 500 and a close, got %s", x.Len, x.Limit, strings.Join(codes[minInt(x.Pre, len(codes)):], " ")), Witness: wit})
			} else if !closedByServer {
				out = append(out, Violation{Rule: "C19.long-line-not-closed", Detail: "the server did not close the connection after the over-long line", Witness: wit})
			}
			for _, e := range h.Events {
				if strings.Contains(e.Arg, "ok-long") {
					out = append(out, Violation{Rule: "C19.long-line-executed", Detail: fmt.Sprintf("an over-long line (%d octets, limit %d) reached the backend: %s(%s)", x.Len, x.Limit, e.Kind, e.Arg), Witness: wit})
					break
				}
			}
			if x.Form == 2 {
				if n := len(eventsOf(h, 0, "SaslNext")); n > 1 {
					out = append(out, Violation{Rule: "C19.long-line-executed", Detail: fmt.Sprintf("an over-long AUTH response (%d octets, limit %d) was handed to the SASL mechanism (%d Next calls)", x.Len, x.Limit, n), Witness: wit})
				}
			}
		}
	case 1:
		pulled := ch.C2S.Consumed - x.LineStart
		if pulled > x.Limit+8192 {
			out = append(out, Violation{Rule: "C19.unbounded", Detail: fmt.Sprintf("the server pulled %d octets of an endless line from the transport (limit %d + 8192 allowed)", pulled, x.Limit), Witness: wit})
		}
		if !closedByServer {
			out = append(out, Violation{Rule: "C19.long-line-not-closed", Detail: "the server did not close the connection on an endless line", Witness: wit})
		} else if len(replies) == 0 || replies[len(replies)-1].Code != 500 {
			out = append(out, Violation{Rule: "C19.long-line-accepted", Detail: fmt.Sprintf("endless line: last reply is not 500: %s", strings.Join(codes, " ")), Witness: wit})
		}
		for _, e := range h.Events {
			if strings.Contains(e.Arg, "ok-long") {
				out = append(out, Violation{Rule: "C19.long-line-executed", Detail: fmt.Sprintf("part of an endless line reached the backend: %s(%s)", e.Kind, e.Arg), Witness: wit})
				break
			}
		}
	case 5:
		// whatever the arguments were: five replies, the NOOP answered 250, QUIT 221, nothing closed early
		want := x.Pre + 5
		if len(replies) != want || replies[want-2].Code != 250 || replies[want-1].Code != 221 {
			out = append(out, Violation{Rule: "C19.arguments", Detail: fmt.Sprintf("MAIL/RCPT arguments built from fragments: expected %d replies ending in 250 (NOOP) and 221 (QUIT), got %s", want, strings.Join(codes, " ")), Witness: wit})
		}
	case 4:
		// reference error counter over the generated lines
		if x.WriteFault {
			// replies are lost from some point on: only the closing is judged
			if x.ErrAt >= 0 {
				w2 := wit + fmt.Sprintf(" failwrite=%d blockwrite=%d", sc.Conns[0].SrvFaults.FailWriteAt, sc.Conns[0].SrvFaults.BlockWriteAt)
				if !closedByServer {
					out = append(out, Violation{Rule: "C19.error-threshold", Detail: fmt.Sprintf("fourth malformed command is line %d, reply writes fail: the server never closed the connection", x.ErrAt), Witness: w2})
				}
				for _, e := range h.Events {
					if e.Kind == "Mail" && strings.Contains(e.Arg, "ok-after-flood") {
						out = append(out, Violation{Rule: "C19.error-threshold", Detail: fmt.Sprintf("fourth malformed command is line %d, reply writes fail: the server went on executing commands (Mail(%s))", x.ErrAt, e.Arg), Witness: w2})
						break
					}
				}
			}
		} else if x.ErrAt >= 0 {
			want := x.Pre + x.ErrAt + 2 // one reply per line up to the fourth error, plus the closing notice
			if x.TLSAt >= 0 && x.TLSAt <= x.ErrAt {
				want++ // the 220 to STARTTLS
			}
			if len(replies) != want || !closedByServer {
				out = append(out, Violation{Rule: "C19.error-threshold", Detail: fmt.Sprintf("fourth malformed command is line %d: expected %d replies then a close (closed=%v), got %d: %s", x.ErrAt, want, closedByServer, len(replies), strings.Join(codes, " ")), Witness: wit})
			} else if replies[want-1].Code != 500 {
				out = append(out, Violation{Rule: "C19.error-threshold", Detail: "closing notice is not a 500: " + replies[want-1].String(), Witness: wit})
			}
		} else {
			want := x.Pre + len(x.Lines) + 1
			if x.TLSAt >= 0 {
				want++
			}
			if len(replies) != want || replies[want-1].Code != 221 {
				out = append(out, Violation{Rule: "C19.error-threshold", Detail: fmt.Sprintf("fewer than four malformed commands: expected %d replies ending in 221, got %d: %s", want, len(replies), strings.Join(codes, " ")), Witness: wit})
			}
		}
	}
	return out
}

func classifyC19(sc *Scenario, h *History, st *Stats) string {
	x := sc.X.(*c19X)
	ch := h.Conns[0]
	switch x.Kind {
	case 0:
		st.Probes[fmt.Sprintf("line_len_limit%+d", minInt(x.Len-x.Limit, 4))]++
		if x.Pos == 6 {
			st.Probes["probe_after_chunk_refused_by_backend"]++
		}
		for i, st2 := range sc.Conns[0].Steps {
			if st2.Kind == kPayload && st2.Glue && i+1 < len(sc.Conns[0].Steps) && sc.Conns[0].Steps[i+1].Kind == kGarbage {
				st.Probes["probe_line_in_the_same_segment_as_a_chunk"]++
			}
		}
		// did the line cross the limit inside one segment or across segments?
		for i, s := range sc.Conns[0].Steps {
			if s.Kind == kGarbage && ch.StepOff[i] >= 0 {
				if len(s.Segs) == 0 {
					st.Probes["limit_crossed_inside_one_segment"]++
				} else {
					st.Probes["limit_crossed_across_segments"]++
				}
			}
		}
	case 1:
		st.Probes["endless_line"]++
		if x.Form == 1 {
			st.Probes["endless_line_with_CR_at_intervals"]++
		}
		if x.Pos == 3 || x.Pos == 6 {
			st.Probes["endless_line_after_bdat_chunk"]++
		}
	case 6:
		for _, e := range h.Events {
			if e.Kind == "NewSession" && (e.Res != "" || e.Panicked) {
				st.Faults["backend_refuses_the_session_and_the_client_goes_on"]++
				break
			}
		}
	case 5:
		st.Probes["mail_rcpt_arguments_from_fragments"]++
		for _, e := range h.Events {
			if e.Kind == "Rcpt" && e.Done {
				st.Probes["fragment_arguments_accepted_by_parser"]++
				break
			}
		}
	case 4:
		if x.ErrAt >= 0 {
			st.Probes["error_threshold_reached"]++
			if x.WriteFault {
				st.Faults["error_flood_while_reply_writes_fail"]++
			}
			if x.TLSAt >= 0 && x.ErrsPreTLS >= 1 && x.ErrsPreTLS <= 3 && ch.HandshakeDone {
				st.Probes["errors_on_both_sides_of_STARTTLS"]++
			}
		}
	}
	if ch.SrvCloseSeq >= 0 {
		st.Probes["server_closed_connection"]++
	}
	return fmt.Sprintf("%d|%d|%d|%d|%d|%q|%v", x.Kind, x.Limit, x.Len, x.Form, x.Pos, x.Lines, clipInts(sc.Conns[0].Steps[len(sc.Conns[0].Steps)-1].Segs, 3)) + segKey(sc)
}

func segKey(sc *Scenario) string {
	for _, s := range sc.Conns[0].Steps {
		if s.Kind == kGarbage {
			return fmt.Sprint(clipInts(s.Segs, 4))
		}
	}
	return ""
}

func init() {
	register(&Property{
		ID: "C19", Level: "exploration",
		Rule:     "raw driver sends (0) a probe line of length limit-2..limit+3, limit+50, 2*limit (CRLF included; NOOP padded or MAIL padded with spaces) for limits 64/200/2000 at seven conversation positions (after a BDAT chunk - lock-step or in the chunk's own segment -, after a chunk the backend refused, inside an AUTH exchange where the line is the base64 response to a 334, ...), whole or cut so that the limit is crossed inside one segment or across segments; (1) an endless LF-free stream of 70000 octets (letters, or letters with CR, NUL, SP or HT at intervals shorter than the limit) at four positions including after a BDAT chunk; (2) every string of length <= 4 over {NUL,CR,LF,SP,A,:,<} as a command line, repeated 1-4 times; (3) seeded binary; (4) mixes of valid and malformed commands around the fourth error, checked against a reference error counter - in a quarter of them with a STARTTLS and its handshake somewhere between the lines, which does not restart the count; (5) MAIL and RCPT arguments built from fragments - paths (quoted, source-routed, literal, unterminated, doubled brackets, 8-bit) and parameters of every extension (SIZE, BODY, SMTPUTF8, REQUIRETLS, RET, ENVID, AUTH, NOTIFY, ORCPT rfc822/utf-8 with escapes cut short, RRVS), each alone (systematic) and in drawn combinations, with all extensions enabled: no panic, five replies, the connection stays usable; (6) a backend that refuses the session (error, SMTP error, panic) at the first one or two greetings and a client that goes on regardless with 1-6 commands of every kind (MAIL, RCPT, DATA, BDAT, AUTH, STARTTLS, RSET, VRFY, another greeting): no recovered panic other than the backend's own, no hang. Every case is non-trivial by construction; distinct by (kind, limit, length, form, position, lines, segmentation). Length limit+1 is generated but not judged. The error flood also comes from a peer that does not take the replies (reply writes fail, or block until WriteTimeout), with a sentinel command behind it.",
		Gen:      genC19,
		Check:    checkC19,
		Classify: classifyC19,
		Sweep: func(tier string) []map[string]int {
			var out []map[string]int
			reps := 3
			if tier == "thorough" {
				reps = 40
			}
			for r := 0; r < reps; r++ {
				for l := 0; l < 3; l++ {
					for d := 0; d < 8; d++ {
						for p := 0; p < 7; p++ {
							out = append(out, map[string]int{"c19kind": 0, "c19limit": l, "c19delta": d, "c19pos": p})
						}
					}
					for p := 0; p < 5; p++ {
						out = append(out, map[string]int{"c19kind": 1, "c19limit": l, "c19pos": p})
					}
				}
			}
			for r := 0; r < 4; r++ {
				for f := 0; f < len(c19Paths)+len(c19MailParams)+len(c19RcptParams); f++ {
					out = append(out, map[string]int{"c19kind": 5, "c19frag": f})
				}
			}
			nstr := 400
			if tier == "thorough" {
				nstr = 2800
			}
			for i := 0; i < nstr; i++ {
				for p := 0; p < 3; p++ {
					out = append(out, map[string]int{"c19kind": 2, "c19str": (i * 7) % 2800, "c19pos": p})
				}
			}
			return out
		},
		Real:        []string{"smtp.Server.Serve/handleConn", "smtp.Conn command loop, protocolError, panic recovery", "lineLimitReader", "parseCmd and argument parsers", "net/textproto", "bufio"},
		Stub:        []string{"net.Listener (SimListener)", "net.Conn (SimConn; counts the octets the server pulls)", "Backend/Session (SimBackend)", "clock (synctest)", "SMTP client (raw driver)", "Server.ErrorLog (recording logger)"},
		Assumptions: []string{"only unknown verbs and lines not of the shape VERB [SP args] are used as 'unrecognised or malformed'; argument-level syntax errors are counted neither way", "an unrecovered panic kills the worker process and is reported by verifctl as a process-crash violation"},
		Required:    []string{"endless_line_after_bdat_chunk", "probe_after_chunk_refused_by_backend", "probe_line_in_the_same_segment_as_a_chunk", "limit_crossed_across_segments", "limit_crossed_inside_one_segment", "error_threshold_reached", "line_len_limit+2", "line_len_limit+0", "error_flood_while_reply_writes_fail", "endless_line_with_CR_at_intervals", "mail_rcpt_arguments_from_fragments", "fragment_arguments_accepted_by_parser", "errors_on_both_sides_of_STARTTLS", "backend_refuses_the_session_and_the_client_goes_on"},
		Instr:       true,
		QuickRuns:   120000, ThoroughRuns: 3000000,
	})
}
