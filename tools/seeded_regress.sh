#!/bin/bash
# Re-run the recorded seeded changes against the checks that are recorded as catching them.
#   tools/seeded_regress.sh [ids...]        (default: all of seeded/S*)
# Works on the repository named by $VERIF_REPO (default /repo, which must be clean); each
# patch is applied, the checks named in meta.json "caught_by" are run (quick tier), and the
# patch is undone straight afterwards. Prints one line per change; exit 1 if one is missed.
set -u
ROOT=${VERIF_ROOT:-/verif}
REPO=${VERIF_REPO:-/repo}
cd $ROOT || exit 2
IDS=${*:-$(ls seeded | grep '^S[0-9]*$' | sort)}
MISSED=0
for id in $IDS; do
  d=$ROOT/seeded/$id
  checks=$(python3 -c "
import json,re,sys
m=json.load(open('$d/meta.json'))
seen=[]
for c in re.findall(r'C\d\d', m.get('caught_by','')):
    if c not in seen: seen.append(c)
print(' '.join(seen))")
  if [ -z "$checks" ]; then echo "$id: recorded as not caught (see its meta.json)"; continue; fi
  if ! git -C $REPO diff --quiet; then echo "$REPO is dirty, aborting"; exit 2; fi
  if ! (git -C $REPO apply $d/patch.diff 2>/dev/null || git -C $REPO apply -3 $d/patch.diff 2>/dev/null); then
    git -C $REPO reset -q; git -C $REPO checkout -- .
    echo "$id: patch no longer applies (the code it changed was repaired or moved)"; continue
  fi
  git -C $REPO reset -q
  caught=""
  for c in $checks; do
    ./verifctl check $c > /tmp/regress_${id}_$c.log 2>&1; rc=$?
    if [ $rc -eq 1 ]; then caught="$caught $c"; fi
    if [ $rc -eq 2 ]; then caught="$caught $c(exit2)"; fi
  done
  git -C $REPO reset -q; git -C $REPO checkout -- .
  if [ -z "$caught" ]; then echo "$id: MISSED (ran: $checks)"; MISSED=1; else echo "$id: caught by$caught (recorded: $checks)"; fi
  rm -f /tmp/regress_${id}_*.log
done
exit $MISSED
