#!/bin/bash
# Regenerate every evidence file from /verif against /repo itself (thorough tier, bounded wall per
# phase), then validate the evidence files and the manifest against their schemas.
#   tools/final_evidence.sh [wall-seconds-per-phase] [seed]
set -u
cd /verif || exit 2
export GOFLAGS=-mod=mod GOPROXY=off GOSUMDB=off GOTOOLCHAIN=local
WALL=${1:-300}; SEED=${2:-1}
go1.26.8 build -o verifctl ./cmd/verifctl || exit 2
if ! git -C /repo diff --quiet; then echo "/repo is dirty"; exit 2; fi
RC=0
for p in C01 C02 C03 C04 C05 C06 C07 C08 C09 C10 C13 C16 C18 C19 C20; do
  ./verifctl check $p --tier thorough --wall $WALL --seed $SEED 2>&1 | grep -E "^VIOLATION|^KNOWN-FINDING|rule=|tier=|COVERAGE|froze" | cut -c1-220
  rc=${PIPESTATUS[0]}; [ $rc -ne 0 ] && { echo "$p exit=$rc"; RC=1; }
done
python3 mkmanifest.py > /dev/null
/opt/veriftools/pyvenv/bin/python - <<'PY'
import json,jsonschema,glob
sch=json.load(open('/root/.vp/EVIDENCE.schema.json'))
for f in sorted(glob.glob('/verif/evidence/C*.json')):
    jsonschema.validate(json.load(open(f)),sch)
jsonschema.validate(json.load(open('/verif/MANIFEST.json')),json.load(open('/root/.vp/MANIFEST.schema.json')))
print("evidence and manifest validate")
PY
exit $RC
