#!/bin/bash
# Run checks of the current /verif against /repo's HEAD plus one recorded seeded change.
#   tools/seeded_try.sh <Sid> <checks...>     (scratch worktree under /tmp/mut, removed afterwards)
set -u
ID=$1; shift
SCR=/tmp/mut/try_$ID
mkdir -p /tmp/mut
git -C /repo worktree remove --force $SCR 2>/dev/null
git -C /repo worktree add -q --detach $SCR HEAD || exit 2
cd $SCR || exit 2
git apply /verif/seeded/$ID/patch.diff 2>/dev/null || git apply -3 /verif/seeded/$ID/patch.diff || { echo "$ID: patch does not apply"; cd /; git -C /repo worktree remove --force $SCR; exit 2; }
git reset -q
cd /verif
for c in "$@"; do
  VERIF_REPO=$SCR ./verifctl check $c > /tmp/mut/try_${ID}_$c.log 2>&1; rc=$?
  rules=$(grep -A1 '^VIOLATION' /tmp/mut/try_${ID}_$c.log | grep 'rule=' | sed 's/ *rule=//' | sort | uniq -c | tr '\n' ' ')
  echo "$ID $c exit=$rc $rules"
  [ $rc -eq 2 ] && tail -5 /tmp/mut/try_${ID}_$c.log
done
git -C /repo worktree remove --force $SCR
