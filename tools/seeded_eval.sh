#!/bin/bash
# Evaluate a seeded change produced in a scratch worktree.
#   tools/seeded_eval.sh <worktree> <id> <property> [checks...]
# 1. extracts the library change (patch.diff) and the demonstration test into /verif/seeded/<id>/
# 2. confirms in the worktree: baseline suite passes with the change (demo moved away),
#    the demo fails with the change and passes without it
# 3. applies the patch to a scratch worktree of /repo's HEAD, runs the given checks there (default: all quick)
set -u
WT=$1; ID=$2; PROP=$3; shift 3
CHECKS=${*:-C01 C02 C03 C04 C05 C06 C07 C08 C09 C10 C13 C16 C18 C19 C20}
OUT=/verif/seeded/$ID
mkdir -p $OUT
cd $WT || exit 2
git diff -- . ':!seeded_demo_test.go' > $OUT/patch.diff
cp seeded_demo_test.go $OUT/seeded_demo_test.go.txt 2>/dev/null
if [ ! -s $OUT/patch.diff ]; then echo "no library change in $WT"; exit 2; fi
echo "--- patch: $(grep -c '^[+-][^+-]' $OUT/patch.diff) changed lines in $(grep -c '^diff' $OUT/patch.diff) file(s)"
# baseline suite with the change, demo moved away
mv seeded_demo_test.go /tmp/seeded_demo_$ID.go
go build ./... && go test -vet=off -count=1 ./... > /tmp/seeded_base_$ID.log 2>&1; BASE=$?
mv /tmp/seeded_demo_$ID.go seeded_demo_test.go
echo "--- baseline suite with the change: exit $BASE"
go test -vet=off -count=1 -run 'TestSeededDemo' . > /tmp/seeded_with_$ID.log 2>&1; WITH=$?
# (no git stash: the stash is shared between all worktrees of a repository)
git checkout -- $(git diff --name-only -- . ':!seeded_demo_test.go')
go test -vet=off -count=1 -run 'TestSeededDemo' . > /tmp/seeded_without_$ID.log 2>&1; WITHOUT=$?
git apply $OUT/patch.diff
echo "--- demo with the change: exit $WITH (want != 0); without: exit $WITHOUT (want 0)"
# run the checks against a scratch worktree of /repo's HEAD with the patch applied
# (VERIF_REPO points the build at it; /repo itself is not touched and no evidence file is written)
SCR=/tmp/mut/eval_$ID
git -C /repo worktree remove --force $SCR 2>/dev/null
git -C /repo worktree add -q --detach $SCR HEAD || exit 2
cd $SCR || exit 2
git apply $OUT/patch.diff 2>/dev/null || git apply -3 $OUT/patch.diff || { echo "patch does not apply to /repo HEAD"; cd /; git -C /repo worktree remove --force $SCR; exit 2; }
git reset -q   # a 3-way apply stages the result; the checks only need the working tree
cd ${VERIF_ROOT:-/verif}
CAUGHT=""
for c in $CHECKS; do
  VERIF_REPO=$SCR ./verifctl check $c > /tmp/seeded_check_${ID}_$c.log 2>&1; rc=$?
  rules=$(grep -A1 '^VIOLATION' /tmp/seeded_check_${ID}_$c.log | grep 'rule=' | sed 's/ *rule=//' | sort -u | tr '\n' ' ')
  echo "    $c exit=$rc $rules"
  if [ $rc -eq 1 ]; then CAUGHT="$CAUGHT $c[$rules]"; fi
  if [ $rc -eq 2 ]; then tail -5 /tmp/seeded_check_${ID}_$c.log; fi
done
git -C /repo worktree remove --force $SCR
echo "--- caught by:$CAUGHT"
echo "{\"base\": $BASE, \"demo_with\": $WITH, \"demo_without\": $WITHOUT, \"caught\": \"$CAUGHT\"}" > $OUT/eval.json
