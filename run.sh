#!/bin/sh
# convenience wrapper for development: ./run.sh C02 [flags]
export GOFLAGS=-mod=mod GOPROXY=off GOSUMDB=off GOTOOLCHAIN=local
cd /verif && go1.26.8 build -o verifctl ./cmd/verifctl && ./verifctl check "$@"
