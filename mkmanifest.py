#!/usr/bin/env python3
"""Regenerates MANIFEST.json from the table below (kept as a script so the
manifest stays valid and consistent while checks are added)."""
import json, subprocess

ENV = "GOFLAGS=-mod=mod GOPROXY=off GOSUMDB=off GOTOOLCHAIN=local"

TECH = "deterministic simulation with fault injection: real go-smtp code inside a testing/synctest bubble over a simulated transport, listener, clock, backend and SASL; seeded search over schedules and faults with tape-level minimisation and exact replay"

CHECKS = {
 "C02": dict(level="exploration", ref="7/C02",
   text="Seeded search plus the systematic product {SMTP, LMTP plain, LMTP per-recipient} x backend {reads all, k, nothing} x {accept, SMTPError, plain error} x size limit {none, below, at, above}: a DATA message stuffed with bait command lines and end-marker look-alikes, followed by pipelined marker commands. Oracles: no bait address ever reaches the backend, exactly the expected replies arrive with each marker's own outcome, the marker MAIL reaches the backend, the message the backend saw is the reference unstuffing (or a prefix when it read less). A fault stratum stalls the client inside the message past ReadTimeout.",
   note="Trusts the reference unstuffer and the strict reply splitter; acceptance of the message is not judged here."),
 "C05": dict(level="exploration", ref="7/C05",
   text="Seeded search plus a systematic sweep over session state {valid envelope, no MAIL, every RCPT rejected} x size limit {off, below the total}: a message cut into 1-5 BDAT chunks (sizes 0..9000, LAST anywhere or missing, malformed variants) whose payloads contain end markers, bait commands, binary octets and LF-free runs around and above MaxLineLength, a NOOP marker after every chunk, lock-step or fully pipelined under drawn segmentation. Oracles: expected reply sequence from a reference chunk framer, no bait address at the backend, marker MAIL executed, exactly one Data call whose octets equal the concatenation of the accepted payloads with EOF only after LAST.",
   note="Trusts the reference chunk framer (written from RFC 3030 and the property statement); refusal replies are judged to be 5xx, not for their exact code; a BDAT without a usable size is sent without payload."),
 "C06": dict(level="exploration", ref="7/C06",
   text="Systematic sweep of every (N in 8..24, size in {N-2..N+2, ~10N}, DATA or BDAT in 1..4 chunks) plus seeded larger limits, chunk cut points, SIZE= parameters (N-1, N, N+1, 2^32-1, 11 and 20 digit values, malformed), read sizes and segmentation. Oracles: backend never reads more than N octets; a message over N is never presented as complete (non-EOF reader error, 552, envelope gone: a DATA probe is refused); SIZE>N is refused 552 without a Mail callback; a message of at most N octets arrives complete with EOF and 250 exactly as without a limit.",
   note="Size is judged on messages without dot-stuffing (wire size = backend size). The backend propagates the reader's error as its verdict, as io.ReadAll-based backends do."),
 "C07": dict(level="fault_enumeration", ref="7/C07",
   text="For each conversation of a seeded corpus (1-3 transactions, DATA and BDAT, SMTP and LMTP, partial end markers in the text, transfers abandoned by RSET/QUIT/EHLO/MAIL/nothing) the connection is cut at EVERY octet offset of the client's stream (FIN), and with RST, half-close and stall-until-ReadTimeout at every 5th/7th/9th offset. Oracle per message: if its last octet (end marker / LAST payload) was not delivered, the backend reader never reports EOF, a backend reading to the end gets a non-EOF error and returns, and no 2xx final reply is written; whenever the reader reports EOF the octets are the whole message; the fault-free base run of every conversation must be healthy.",
   note="Exhaustive over cut offsets of the generated corpus, not over all conversations. The backend reads to the end (Session.Data documents that r must be consumed), so a backend that accepts early is outside the contract and not judged."),
 "C08": dict(level="fault_enumeration", ref="7/C08",
   text="(a) C07's corpus with the connection cut at every octet offset; (b) every server-initiated ending (221 after QUIT, fourth protocol error, over-long line, idle timeout, backend panic in NewSession/Mail/Rcpt/Data, Server.Close at a drawn instant) at five conversation positions, each followed by drawn suffixes of 0-4 commands already buffered in the same segment or sent later; (c) STARTTLS whose Logout is parked while Server.Close fires. Oracles over callback begin events keyed by session identity: exactly one Logout per created session, no callback beginning after it, no callback after the server closed its endpoint, no reply attempted after a self-initiated close, Serve returns, and no goroutine of the bubble is left one fake hour later (stack dump as witness). Second build (instr tier): every run again against a scratch copy of the library with yield points inserted by program in front of every statement outside lock-held regions (see C20), parked at a drawn point or subset, so that Server.Close and the cut can land between any two statements of the command loop; a command that was in flight when Server.Close struck from another goroutine is not judged as 'executed after the close'.",
   note="Callback order is the order of a global sequence number taken on entry. Commands fully received before a peer disconnect may run; a final line cut before its CRLF is not judged."),
 "C19": dict(level="exploration", ref="7/C19",
   text="Systematic sweep of probe lines of length limit-2..limit+3/+50/2*limit for limits 64/200/2000 at five conversation positions (including right after a BDAT chunk), endless 70000-octet lines at four positions, all strings of length <=4 over {NUL,CR,LF,SP,A,:,<} as command lines (400 quick / 2800 thorough x 3 positions), plus seeded binary input and valid/malformed mixes around the fourth error, all under drawn segmentation (limit crossed inside one segment or across segments). Oracles: no recovered panic in ErrorLog, no process crash, no deadlock or leaked goroutine; a line > limit+1 gets exactly one 500, the connection is closed and nothing of it reaches the backend; a line <= limit is handled normally; the connection closes exactly at the fourth malformed command (reference counter); for an endless line the transport counts how many octets the server pulled: at most limit + 8 KiB.",
   note="Length limit+1 is generated but not judged. Only unknown verbs and lines not of the shape VERB [SP args] count as malformed; argument-level errors are not used around the threshold."),
 "C13": dict(level="exploration", ref="7/C13",
   text="Seeded search plus the systematic product backend flavour {per-recipient, plain} x transfer {DATA, BDAT} x mode {normal, panic, early failure, out of contract}: 1-4 accepted recipients over two addresses with rejected RCPTs interleaved, drawn subsets/orders/timings of SetStatus calls with parks, return nil/SMTPError/plain error, panic at three points, early failure after k octets (including during the LAST chunk), 1-4 BDAT chunks. Oracle: exactly one final reply per accepted RCPT in RCPT order, each naming its recipient and carrying the status the occurrence rule assigns (k-th status of an address -> its k-th occurrence, else the return value), then the marker and QUIT answered; after a panic no positive reply for a recipient without explicit status and the connection is closed; a bubble deadlock or a goroutine still blocked after one fake hour is a violation (this is the liveness clause).",
   note="Out-of-contract backends (too many statuses, unknown recipient) are judged only for no deadlock / no crash. Statuses a backend set explicitly before panicking are honoured."),
 "C03": dict(level="exploration", ref="7/C03",
   text="Seeded command histories (1-25 commands over a 42-symbol abstract alphabet: valid, backend-rejected, malformed, out-of-order and garbage forms of every command) x SMTP/LMTP x MaxRecipients 0/2 x NewSession failures x three sending disciplines, with slow Data returns so aborted chunked deliveries overlap what follows. Refinement check: a five-variable reference envelope machine is advanced by the OBSERVED replies and a trace monitor places every backend callback between two replies (by the octets the server had written when it began): Mail only when greeted in the server's flavour, Rcpt only with an accepted MAIL, Data only with an accepted RCPT, accepted recipients <= max, out-of-order commands answered 5xx without callback, every transaction end followed by a Reset before the next envelope callback, Hostname()/TLS state inside NewSession are those of the greeting being processed.",
   note="A second MAIL inside a transaction and VRFY/NOOP placement are not judged. 'Signalled by Reset' = at least one Reset between a transaction end and the next envelope callback. TLS histories are in C10."),
 "C04": dict(level="exploration", ref="7/C04",
   text="The same histories, with every message carrying a unique tag and its own verdict that the backend derives from the content it read, and aborted deliveries returning late with an error that names the message they belonged to. The client stream and reply stream are walked in tandem by a reference framing model (reply counts computed from the replies: 354, 334, LMTP recipient count, closing notice). Oracles: every reply passes a strict RFC 5321 4.2 parser; every reply except greeting/EHLO/3xx carries an enhanced code of its class; no command is left unanswered while the connection stays open and no unsolicited reply except one closing notice; the final reply of message k is positive iff the backend's Data for the payload tagged k returned nil with EOF seen, a rejection carries E-k, and no reply ever carries another message's or a stale delivery's outcome.",
   note="8-bit octets and reply line length are not judged; the enhanced code is required on the last line of a reply."),
 "C16": dict(level="exploration", ref="7/C16",
   text="The two real halves together: real smtp.Client (Mail, Rcpt, Data/LMTPData, Close twice, Noop, Quit) against the real smtp.Server over the simulated, re-segmenting transport. Sweep of all 21845 bodies over the tokens {'.', LF, CRLF, x} up to length 7 (thorough; 3000 in quick) plus seeded 8-bit bodies up to ~9000 octets, every kind of Write partition, accept/reject, SMTP and LMTP. Oracles: backend octets = body with bare LF -> CRLF and a final CRLF ensured; Mail/Rcpt saw exactly the sender and recipient list; the first Close returns nil iff the backend accepted, else an *SMTPError with the backend's code (or the statuses through the LMTP callback); the second Close returns an error and the transport tap shows not one more octet; the following NOOP succeeds.",
   note="An empty body may arrive as \"\" or CRLF. Bodies contain CR only inside CRLF, as the property states."),
 "C18": dict(level="exploration", ref="7/C18",
   text="Real LMTP client against the real LMTP server with a per-recipient backend: the systematic product 1-3 consecutive transactions x {LMTPData with callback, Data without} with drawn recipient counts, RCPT-time refusals and per-recipient verdict vectors. Oracles: in transaction t the callback fires exactly once per recipient accepted in t, in order, with that recipient's code; Close returns within one fake minute (a Close waiting for replies that never come costs 12 fake minutes and is caught on the fake clock); without a callback any post-DATA refusal makes Close return an *SMTPError; the NOOP after each transaction gets its own reply.",
   note="Timing is judged on the fake clock only as 'well before SubmissionTimeout' (one minute)."),
 "C09": dict(level="exploration", ref="7/C09",
   text="Server half: the full product TLS {plaintext, after STARTTLS, implicit} x AllowInsecureAuth x backend {AuthSession, plain} in every batch, scripted 1-3 step sasl.Server, 1-3 AUTH attempts per connection that go straight, send bad base64 or '*' at a drawn step, name an unknown mechanism or cut the connection, AUTH before the greeting and STARTTLS between attempts. Oracles: AUTH advertised exactly when the connection permits it and the backend supports it; on a non-permitted connection AUTH is 5xx and neither Session.Auth nor sasl.Server.Next is ever called; otherwise Next receives exactly the base64-decoded octets in order (nil for no initial response, empty for '='); after 235 every AUTH is 503 with no backend call until STARTTLS; after a failed/malformed/cancelled exchange the NOOP marker is executed and a fresh AUTH is not 503. Client half: real Client.Auth with a scripted sasl.Client against the same real server (plaintext, STARTTLS, implicit TLS): responses and challenges recorded on both sides agree octet for octet, a mechanism error cancels with '*' and the next NOOP succeeds, Auth returns nil iff the server ended with 235, else an *SMTPError with its code.",
   note="nil (as opposed to empty) responses from a client mechanism are not generated. Reply codes of failed exchanges are judged only as 'not positive'."),
 "C10": dict(level="exploration", ref="7/C10",
   text="Server half: the systematic product pre-history {greeted, authenticated, mid-transaction, mid-BDAT with a parked delivery} x injected plaintext {absent, in the STARTTLS segment, in a later segment before the ClientHello} x TLS {available, not configured, already active}; the raw driver completes a real crypto/tls handshake and sends a drawn tail of in-TLS commands. Oracles on a completed upgrade: no injected bait address reaches the backend, in-TLS reply count = in-TLS command count, MAIL before the new EHLO and RCPT are 5xx, AUTH is not 503, every plaintext session was logged out before the first session that sees TLS, EHLO in TLS no longer advertises STARTTLS; STARTTLS is advertised and accepted iff TLS is configured and not active. Client half: real client via NewClientStartTLS, DialStartTLS and package-level SendMail (both through the VerifDial hook) against a stub server x 7 behaviours x 3 APIs. Oracles: a tap on the raw socket shows nothing but EHLO/HELO/STARTTLS/QUIT before the first TLS record; the stub never sees MAIL/RCPT/AUTH/DATA/content in plaintext; every misbehaviour ends in an API error; on an honest upgrade the first in-TLS command is EHLO and MAIL parameters follow the in-TLS capability list, which differs from the plaintext one (this also catches an injected reply being consumed).",
   note="After a failed handshake nothing is judged except C08's rules. Package-level SendMail uses default certificate verification, so against the self-signed simulated peer only its failure modes are reachable."),
 "C20": dict(level="exploration", ref="7/C20",
   text="Every scenario (1-3 connections running chunked/LMTP transfer patterns with slow stale deliveries, pauses, QUIT/disconnect inside a transfer; 0-3 Server.Close/Shutdown(ctx with fake deadline) calls at drawn instants, overlapped through the VerifYield hook, or racing with the start of Serve; scripted temporary/permanent Accept errors; failing listener Close) runs in two builds. Plain build: bubble deadlock, goroutines left after one fake hour (with stacks), panics in Close/Shutdown or handlers, the Close/Shutdown history checked with porcupine v1.3.0 for linearizability against an open->closed register (event sequence numbers as timestamps), Serve returns nil after Close/Shutdown and exactly the permanent Accept error otherwise, temporary Accept errors are survived, Shutdown returns nil only after the active connections ended or its context's error not before the fake deadline, one Logout per session. -race build: the Go race detector is the oracle; a report whose accessing frames are library code is a violation keyed by the unordered pair of access sites, a report in harness code is a harness fault (exit 2). Third build (instr tier): the same scenarios against a scratch copy of /repo's working tree into which verifctl has inserted a yield point in front of every statement of server.go and conn.go at which no library mutex can be held (about 570 points; go/ast + go/types, lexical lock regions plus call closure, ranges over maps excluded, a TryLock probe of both mutexes before every park); a run parks at one drawn point every time it is passed or at a drawn subset of all points, so Close, Shutdown, the Accept loop, connection goroutines and deliveries get in between any two statements of each other; same oracles as the plain build, replay files marked instr replay against a rebuilt instrumented copy.",
   note="Interleavings are decided at blocking points, at the hand-placed yield hooks, and (instr tier) at yield points inserted by program in front of every statement outside lock-held regions; statements inside a region with a library mutex held are never separated (a sleeper under a mutex would stop the fake clock), there the race detector is the only oracle. A race inside a straight-line stretch of the command loop is only seen by the detector if no later lock release by the same goroutine orders it before the other goroutine runs. A porcupine timeout is inconclusive and never reported. The instr tier runs without the race detector (its lock probe is a synchronisation)."),
 "C01": dict(level="exploration", ref="7/C01",
   text="Seeded search plus a systematic sweep of all 5461 bodies over the byte classes {'.',CR,LF,other} up to length 6, each run under a drawn transport segmentation, server short-read plan and backend read-size plan; the octets and terminal error the real dataReader hands the backend are compared with an RFC 5321 reference unstuffer. Sampling, not proof: evidence of byte-exactness over the explored streams x schedules.",
   note="Trusts: the reference unstuffer (cross-checked against a reference stuffer), Go's testing/synctest fake clock, go1.26.8 building go-smtp the same way go1.23.5 does."),
}

NA = {
 "C11": "pure function of one command line and five flags (MAIL/RCPT argument parsing): no schedule, clock, fault or second party for a simulator to control; grammar-based generation or enumeration is the right tool (DESIGN.md section 6)",
 "C12": "pure function of a finite 3072-point configuration space that the property wants enumerated exhaustively (bounded enumeration, not seeded simulation); its security-relevant rows (AUTH/STARTTLS advertisement) are decided inside C09 and C10 (DESIGN.md section 6)",
 "C14": "composition of pure encoders/decoders on one string per option; the server in the middle adds no state, time or fault; sender/recipient transfer is covered inside C16 (DESIGN.md section 6)",
 "C15": "pure function (extension map, arguments) -> one command line; the only history-dependent clause (most recent EHLO across STARTTLS) is checked in C10's client half (DESIGN.md section 6)",
 "C17": "composition of a pure reply formatter and a pure reply parser on one value; the coarse part (each message gets its own verdict and code) is inside C04, C16 and C18 (DESIGN.md section 6)",
}

INSTR = " Every run is executed again in the instr build: a scratch copy of /repo's working tree with a yield point inserted by program in front of every statement of server.go and conn.go at which no library mutex can be held (DESIGN.md 4.7); the run parks at one drawn point or at a drawn subset of them, same oracles."

PENDING = {
}

def main():
    props = [json.loads(l) for l in open("/verif/properties.jsonl")]
    checks = []
    na = []
    for p in props:
        pid = p["id"]
        if pid in CHECKS:
            c = CHECKS[pid]
            checks.append({
                "property_id": pid,
                "quick_cmd": f"./verifctl check {pid} --tier quick",
                "thorough_cmd": f"./verifctl check {pid} --tier thorough",
                "evidence_file": f"/verif/evidence/{pid}.json",
                "replay_cmd_template": "./verifctl replay {path}",
                "engine": "sim",
                "level_claimed": {"category": c["level"], "text": c["text"] + ("" if pid in ("C20", "C08") else INSTR), "design_ref": "DESIGN.md section " + c["ref"] + " and 4.7"},
                "level_note": c["note"],
                "technique": TECH,
            })
        elif pid in NA:
            na.append({"property_id": pid, "reason": NA[pid]})
        else:
            na.append({"property_id": pid, "reason": PENDING.get(pid, "simulation target (DESIGN.md section 7) whose check is not built yet in this round; not claimed until it is")})
    hooks_commits = []
    try:
        out = subprocess.run(["git", "-C", "/repo", "log", "--format=%H %s"], capture_output=True, text=True).stdout
        for l in out.splitlines():
            h, s = l.split(" ", 1)
            if s.startswith("verif:") or s.startswith("hook:"):
                hooks_commits.append(h)
    except Exception:
        pass
    m = {
        "version": 1,
        "setup_cmd": f"cd /verif && {ENV} go1.26.8 build -o verifctl ./cmd/verifctl && ./verifctl setup",
        "hooks": {
            "guard": "verif",
            "enable": "Go build tag: the checks compile /repo with `go1.26.8 test -c -tags verif` through a replace directive in /verif/go.mod. The instr build of a check compiles a scratch copy of /repo's working tree (under /verif/.build, removed afterwards) into which verifctl has inserted calls of a hook before statements of server.go and conn.go and one generated file (build tag verif); nothing of that is ever written to /repo",
            "baseline_off_cmd": "cd /repo && go test -vet=off -count=1 -timeout 25m ./...",
            "source_commits": hooks_commits,
            "add_only": True,
        },
        "engines": [{
            "name": "sim",
            "path": "/verif/sim",
            "serves_properties": sorted(CHECKS.keys()),
            "kind_free_text": "seeded discrete-event simulator; two builds per check (three for C20): the library as it is, (C20) the same under the Go race detector, and a scratch copy with yield points inserted by program in front of every statement outside lock-held regions (testing/synctest fake clock, SimConn/SimListener/SimBackend/scripted SASL, raw driver and real smtp.Client actors, choice tape with shrinking and exact replay); cmd/verifctl builds the test binary from /repo's working tree, fans out 16 single-threaded worker processes, aggregates evidence",
        }],
        "checks": checks,
        "not_applicable": na,
        "notes": "All checks: exit 0 = held on everything explored (KNOWN-FINDING lines for entries of known_findings.json), exit 1 = VIOLATION property=<id> replay=<path>, exit 2 = build/harness/watchdog trouble (never a violation). VERIF_SEED selects the seed; thorough is time-boxed by VERIF_THOROUGH_WALL seconds per build (default 1200).",
    }
    json.dump(m, open("/verif/MANIFEST.json", "w"), indent=1)
    print("checks:", [c["property_id"] for c in checks], "na:", [n["property_id"] for n in na])

main()
